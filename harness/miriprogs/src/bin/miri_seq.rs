//! Miri program 1 (C16, secondary): short overflow-heavy histories on the three real engines for
//! every policy, with entry and memory limits, under the undefined-behaviour interpreter.
//! Any panic, UB, data race or leak fails the run.
use cachelito_core::{AsyncGlobalCache, CacheEntry, CacheStats, EvictionPolicy, GlobalCache, ThreadLocalCache};
use dashmap::DashMap;
use once_cell::sync::Lazy;
use parking_lot::{Mutex, RwLock};
use std::cell::RefCell;
use std::collections::{HashMap, VecDeque};

static G_MAP: Lazy<RwLock<HashMap<String, CacheEntry<String>>>> = Lazy::new(|| RwLock::new(HashMap::new()));
static G_ORDER: Lazy<Mutex<VecDeque<String>>> = Lazy::new(|| Mutex::new(VecDeque::new()));
static G_STATS: Lazy<CacheStats> = Lazy::new(CacheStats::new);
thread_local! {
    static T_MAP: RefCell<HashMap<String, CacheEntry<String>>> = RefCell::new(HashMap::new());
    static T_ORDER: RefCell<VecDeque<String>> = RefCell::new(VecDeque::new());
}

fn main() {
    let seed: u64 = std::env::args().nth(1).and_then(|s| s.parse().ok()).unwrap_or(1);
    let mut x = seed.wrapping_mul(0x9E37_79B9_7F4A_7C15) | 1;
    let mut rnd = move |n: u64| {
        x ^= x << 13;
        x ^= x >> 7;
        x ^= x << 17;
        x % n
    };
    let pols = [EvictionPolicy::FIFO, EvictionPolicy::LRU, EvictionPolicy::LFU, EvictionPolicy::ARC, EvictionPolicy::Random, EvictionPolicy::TLRU];
    let mut ops = 0u64;
    for (pi, pol) in pols.iter().enumerate() {
        for (limit, mem) in [(Some(2usize), None), (None, Some(120usize)), (Some(3), Some(150))] {
            let fw = if pi == 5 { Some(1.5) } else { None };
            G_MAP.write().clear();
            G_ORDER.lock().clear();
            T_MAP.with(|m| m.borrow_mut().clear());
            T_ORDER.with(|o| o.borrow_mut().clear());
            let g = GlobalCache::new(&G_MAP, &G_ORDER, limit, mem, *pol, None, fw, &G_STATS);
            let t = ThreadLocalCache::new(&T_MAP, &T_ORDER, limit, mem, *pol, None, fw);
            let dm: DashMap<String, (String, u64, u64)> = DashMap::new();
            let ord = Mutex::new(VecDeque::new());
            let st = CacheStats::new();
            let a = AsyncGlobalCache::new(&dm, &ord, limit, mem, *pol, None, fw, &st);
            for _ in 0..14 {
                let k = format!("k{}", rnd(5));
                if rnd(2) == 0 {
                    let v = "v".repeat(8 + rnd(40) as usize);
                    if mem.is_some() {
                        g.insert_with_memory(&k, v.clone());
                        t.insert_with_memory(&k, v.clone());
                        a.insert_with_memory(&k, v);
                    } else {
                        g.insert(&k, v.clone());
                        t.insert(&k, v.clone());
                        a.insert(&k, v);
                    }
                } else {
                    let _ = g.get(&k);
                    let _ = t.get(&k);
                    let _ = a.get(&k);
                }
                ops += 3;
                if let Some(n) = limit {
                    assert!(G_MAP.read().len() <= n && dm.len() <= n && T_MAP.with(|m| m.borrow().len()) <= n);
                }
            }
        }
    }
    G_MAP.write().clear();
    G_ORDER.lock().clear();
    println!("MIRI-OK miri_seq seed {} ops {}", seed, ops);
}
