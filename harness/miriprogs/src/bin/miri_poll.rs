//! Miri program 3 (C20, secondary): an async cached call is polled by hand, suspended at its
//! await point, other operations run on the same thread (a lock kept across the await would be
//! a deadlock Miri reports), then the call is dropped / resumed.
use cachelito_async::cache_async;
use std::future::Future;
use std::task::{Context, Poll};

#[cache_async(limit = 2, policy = "lru", tags = ["p"])]
async fn slow(x: u32) -> u32 {
    vhooks::gate().await;
    x + 100
}

fn main() {
    let w = vhooks::noop_waker();
    let mut cx = Context::from_waker(&w);
    for round in 0..2 {
        vhooks::gates_closed(true);
        let mut f = Box::pin(slow(7));
        assert!(matches!(f.as_mut().poll(&mut cx), Poll::Pending));
        // while suspended: same key, other key, invalidations, stats - all on this thread
        vhooks::gates_closed(false);
        assert_eq!(vhooks::block_on(slow(8)), 108);
        assert_eq!(vhooks::block_on(slow(7)), 107);
        cachelito_core::invalidate_with("slow", |k| k == "8");
        cachelito_core::invalidate_by_tag("p");
        let _ = cachelito_core::stats_registry::get("slow");
        vhooks::gates_closed(true);
        if round == 0 {
            drop(f);
            vhooks::gates_closed(false);
        } else {
            vhooks::gate_permit(1);
            match f.as_mut().poll(&mut cx) {
                Poll::Ready(v) => assert_eq!(v, 107),
                Poll::Pending => panic!("still pending after its gate was opened"),
            }
            vhooks::gates_closed(false);
            // stored normally: served without running the body (the gate is open anyway)
            assert_eq!(vhooks::block_on(slow(7)), 107);
        }
    }
    println!("MIRI-OK miri_poll");
}
