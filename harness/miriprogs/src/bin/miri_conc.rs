//! Miri program 2 (C17/C18, secondary): two threads race cached calls on a tiny limit-1 cache
//! against conditional and tag invalidations, sync and async, under Miri's own randomised
//! preemptive scheduler (-Zmiri-many-seeds).  Miri reports deadlocks ("the evaluated program
//! deadlocked"), data races and UB; the program itself checks values and the limit at the end.
use cachelito::cache;
use cachelito_async::cache_async;

#[cache(limit = 1, policy = "lru", tags = ["t"])]
fn sq(x: u32) -> u32 {
    x * x
}
#[cache_async(limit = 1, policy = "fifo", tags = ["t"])]
async fn cube(x: u32) -> u32 {
    x * x * x
}

fn count(name: &str) -> usize {
    let n = std::cell::Cell::new(0);
    cachelito_core::invalidate_with(name, |_| {
        n.set(n.get() + 1);
        false
    });
    n.get()
}

fn main() {
    // first use on the main thread (registration), then race
    assert_eq!(sq(1), 1);
    assert_eq!(vhooks::block_on(cube(1)), 1);
    let a = std::thread::spawn(|| {
        for i in 0..3u32 {
            assert_eq!(sq(i % 2 + 2), (i % 2 + 2) * (i % 2 + 2));
            let y = vhooks::block_on(cube(i % 2 + 2));
            assert_eq!(y, (i % 2 + 2).pow(3));
        }
    });
    let b = std::thread::spawn(|| {
        for i in 0..3u32 {
            cachelito_core::invalidate_with("sq", |k| k.contains('2'));
            if i == 1 {
                cachelito_core::invalidate_by_tag("t");
            }
            cachelito_core::invalidate_all_with(|_, k| k.contains('3'));
            let _ = cachelito_core::stats_registry::get("cube");
        }
    });
    a.join().unwrap();
    b.join().unwrap();
    assert!(count("sq") <= 1, "sync cache exceeds its limit after the race");
    assert!(count("cube") <= 1, "async cache exceeds its limit after the race");
    assert_eq!(sq(5), 25);
    assert_eq!(vhooks::block_on(cube(5)), 125);
    println!("MIRI-OK miri_conc");
}
