//! keymon — C02: distinct argument tuples never share a cache entry.
//!
//! For ~25 signature shapes (1–5 arguments over integers, floats, bool, char, String, &str,
//! tuples, Option, Vec, slices, Debug-derived user types, &self methods), each as #[cache] and
//! #[cache_async], the body returns a fresh serial number.  For generated pairs of argument
//! tuples a != b (bitwise/structural inequality): f(a); f(b) must run the body twice and return
//! different serials, f(a) again must return a's serial; in batches the number of listed key
//! strings must equal the number of distinct tuples stored.  Pairs come from independent
//! draws over an adversarial alphabet, single-position mutations, and *boundary shifting*
//! (render two adjacent arguments, move the boundary, re-split).
//!
//! usage: keymon --out FILE [--seed N] [--shard I/N] [--tier quick|thorough]

use cachelito::cache;
use cachelito_async::cache_async;
use serde_json::json;
use std::collections::HashMap;
use std::sync::atomic::{AtomicU64, Ordering};
use vmon::report::{hash64, hash_str, Report};
use vmon::rng::Rng;

static SERIAL: AtomicU64 = AtomicU64::new(1);
fn next_serial() -> u64 {
    SERIAL.fetch_add(1, Ordering::SeqCst)
}

// ------------------------------------------------------------------------------------------
// adversarial value generation
// ------------------------------------------------------------------------------------------
pub trait Adv: Sized + Clone + vhooks::Dg + std::fmt::Debug {
    fn gen(r: &mut Rng) -> Self;
    fn mutate(&self, r: &mut Rng) -> Self {
        let _ = self;
        Self::gen(r)
    }
    /// rendering used for boundary shifting (None: this type does not take part)
    fn render(&self) -> Option<String> {
        None
    }
    fn parse(_s: &str) -> Option<Self> {
        None
    }
}

const TOKENS: [&str; 26] = ["a", "b", "|", "\"", "\\", "'", ",", "(", ")", "[", "]", " ", "\n", "\0", "\u{7f}", "Some", "None", "\", \"", "\"|\"", "1", "-", ".", "0", "||", "\\\"", "é"];

impl Adv for String {
    fn gen(r: &mut Rng) -> Self {
        // one in ten is long (keys of several hundred bytes: long statements, documents)
        let n = if r.chance(1, 10) { 60 + r.usize(200) } else { r.usize(5) };
        (0..n).map(|_| *r.pick(&TOKENS)).collect()
    }
    fn mutate(&self, r: &mut Rng) -> Self {
        let mut s = self.clone();
        if s.len() > 64 && r.chance(2, 3) {
            // long values that differ only in their last few characters (same length), or in one
            // character somewhere
            let chars: Vec<char> = s.chars().collect();
            let k = if r.chance(3, 4) { chars.len() - 1 - r.usize(7.min(chars.len())) } else { r.usize(chars.len()) };
            let repl = if chars[k] == 'x' { 'y' } else { 'x' };
            return chars.iter().enumerate().map(|(i, c)| if i == k { repl } else { *c }).collect();
        }
        match r.usize(4) {
            0 => s.push_str(*r.pick(&TOKENS[..])),
            1 => {
                s.pop();
            }
            2 => s = format!("{}{}", *r.pick(&TOKENS[..]), s),
            _ => s = s.replace('|', "\"|\""),
        }
        s
    }
    fn render(&self) -> Option<String> {
        Some(self.clone())
    }
    fn parse(s: &str) -> Option<Self> {
        Some(s.to_string())
    }
}
macro_rules! adv_int { ($($t:ty),*) => { $(impl Adv for $t {
    fn gen(r: &mut Rng) -> Self {
        const V: [i128; 14] = [0, 1, 2, 3, 12, 23, 123, -1, -12, 10, 100, 31, 112, 231];
        match r.usize(8) { 0 => <$t>::MAX, 1 => <$t>::MIN, _ => { let v = *r.pick(&V); <$t>::try_from(v).unwrap_or(<$t>::try_from(v.abs() % 100).unwrap_or(1)) } }
    }
    fn mutate(&self, r: &mut Rng) -> Self { match r.usize(3) { 0 => self.wrapping_add(1), 1 => self.wrapping_mul(10), _ => Self::gen(r) } }
    fn render(&self) -> Option<String> { Some(self.to_string()) }
    fn parse(s: &str) -> Option<Self> { let v: $t = s.parse().ok()?; if v.to_string() == s { Some(v) } else { None } }
})* } }
adv_int!(i32, i64, u8, u32, u64, i8, u16, i16, usize);
// 128-bit integers: values that agree in their low 64 bits (or low 32) but differ above
macro_rules! adv_wide { ($($t:ty),*) => { $(impl Adv for $t {
    fn gen(r: &mut Rng) -> Self {
        let lows: [$t; 6] = [0, 1, 7, 12, 0xFFFF_FFFF, 0xFFFF_FFFF_FFFF_FFFF];
        let low = *r.pick(&lows);
        match r.usize(6) {
            0 => <$t>::MAX,
            1 => <$t>::MIN,
            2 => low,
            3 => low.wrapping_add(1 << 64),
            4 => low.wrapping_add(1 << 100),
            _ => low.wrapping_add((1 << 64) * (r.usize(5) as $t)),
        }
    }
    fn mutate(&self, r: &mut Rng) -> Self {
        match r.usize(5) { 0 => self.wrapping_add(1), 1 => self ^ (1 << 64), 2 => self.wrapping_add(1 << 64), 3 => self ^ (1 << 32), _ => self ^ (1 << 127 - r.usize(60)) }
    }
    fn render(&self) -> Option<String> { Some(self.to_string()) }
    fn parse(s: &str) -> Option<Self> { let v: $t = s.parse().ok()?; if v.to_string() == s { Some(v) } else { None } }
})* } }
adv_wide!(u128, i128);
impl Adv for f64 {
    fn gen(r: &mut Rng) -> Self {
        *r.pick(&[0.0, -0.0, 1.0, 1.5, -1.0, 10.0, 1e10, f64::MIN_POSITIVE, f64::INFINITY, f64::NEG_INFINITY, 0.1, 1e-7, 123.0, 12.0, 3.0])
    }
    fn render(&self) -> Option<String> {
        Some(format!("{:?}", self))
    }
    fn parse(s: &str) -> Option<Self> {
        let v: f64 = s.parse().ok()?;
        if !v.is_nan() && format!("{:?}", v) == s {
            Some(v)
        } else {
            None
        }
    }
}
impl Adv for f32 {
    fn gen(r: &mut Rng) -> Self {
        *r.pick(&[0.0f32, -0.0, 1.0, 1.5, -1.0, 10.0, 1e10, f32::MIN_POSITIVE, f32::INFINITY, 0.1, 123.0, 12.0, 3.0])
    }
    fn render(&self) -> Option<String> {
        Some(format!("{:?}", self))
    }
    fn parse(s: &str) -> Option<Self> {
        let v: f32 = s.parse().ok()?;
        if !v.is_nan() && format!("{:?}", v) == s {
            Some(v)
        } else {
            None
        }
    }
}
impl Adv for bool {
    fn gen(r: &mut Rng) -> Self {
        r.chance(1, 2)
    }
}
impl Adv for char {
    fn gen(r: &mut Rng) -> Self {
        *r.pick(&['|', '"', '\'', '\\', 'a', ',', ' ', '\n', '\0', '1', 'b', '\u{7f}', 'é'])
    }
    fn render(&self) -> Option<String> {
        Some(self.to_string())
    }
    fn parse(s: &str) -> Option<Self> {
        let mut it = s.chars();
        let c = it.next()?;
        if it.next().is_none() {
            Some(c)
        } else {
            None
        }
    }
}
impl<T: Adv> Adv for Option<T> {
    fn gen(r: &mut Rng) -> Self {
        if r.chance(1, 3) {
            None
        } else {
            Some(T::gen(r))
        }
    }
    fn mutate(&self, r: &mut Rng) -> Self {
        match self {
            Some(x) if r.chance(2, 3) => Some(x.mutate(r)),
            _ => Self::gen(r),
        }
    }
}
impl<T: Adv> Adv for Vec<T> {
    fn gen(r: &mut Rng) -> Self {
        (0..r.usize(4)).map(|_| T::gen(r)).collect()
    }
    fn mutate(&self, r: &mut Rng) -> Self {
        let mut v = self.clone();
        match r.usize(4) {
            0 => v.push(T::gen(r)),
            1 => {
                v.pop();
            }
            2 if !v.is_empty() => {
                let i = r.usize(v.len());
                v[i] = v[i].mutate(r);
            }
            // split one element into two / merge two into one (boundaries inside a container)
            _ if v.len() >= 2 => {
                if let (Some(a), Some(b)) = (v[0].render(), v[1].render()) {
                    if let Some(m) = T::parse(&format!("{}{}", a, b)) {
                        v.remove(0);
                        v[0] = m;
                    }
                }
            }
            _ => v.push(T::gen(r)),
        }
        v
    }
}

#[derive(Debug, Clone, PartialEq)]
pub struct UserS {
    pub a: String,
    pub b: String,
}
impl cachelito_core::DefaultCacheableKey for UserS {}
impl vhooks::Dg for UserS {
    fn dg(&self, h: &mut vhooks::Hs) {
        h.byte(101);
        self.a.dg(h);
        self.b.dg(h);
    }
}
impl Adv for UserS {
    fn gen(r: &mut Rng) -> Self {
        UserS { a: String::gen(r), b: String::gen(r) }
    }
    fn mutate(&self, r: &mut Rng) -> Self {
        // move text across the field boundary, with the syntax Debug prints in between
        let mut s = self.clone();
        match r.usize(3) {
            0 => {
                s.a = format!("{}\", b: \"{}", self.a, self.b);
                s.b = String::new();
            }
            1 => s.a = s.a.mutate(r),
            _ => s.b = s.b.mutate(r),
        }
        s
    }
}
#[derive(Debug, Clone, PartialEq)]
pub enum UserE {
    A(String),
    B { x: String, y: i32 },
    C,
}
impl cachelito_core::DefaultCacheableKey for UserE {}
impl vhooks::Dg for UserE {
    fn dg(&self, h: &mut vhooks::Hs) {
        match self {
            UserE::A(s) => {
                h.byte(102);
                s.dg(h)
            }
            UserE::B { x, y } => {
                h.byte(103);
                x.dg(h);
                y.dg(h)
            }
            UserE::C => h.byte(104),
        }
    }
}
impl Adv for UserE {
    fn gen(r: &mut Rng) -> Self {
        match r.usize(4) {
            0 => UserE::C,
            1 => UserE::A(String::gen(r)),
            2 => UserE::A("C".into()),
            _ => UserE::B { x: String::gen(r), y: i32::gen(r) },
        }
    }
}
#[derive(Debug, Clone, PartialEq)]
pub struct Recv {
    pub name: String,
    pub id: u32,
}
impl cachelito_core::DefaultCacheableKey for Recv {}
impl vhooks::Dg for Recv {
    fn dg(&self, h: &mut vhooks::Hs) {
        h.byte(105);
        self.name.dg(h);
        self.id.dg(h);
    }
}
impl Adv for Recv {
    fn gen(r: &mut Rng) -> Self {
        Recv { name: String::gen(r), id: u32::gen(r) }
    }
    fn mutate(&self, r: &mut Rng) -> Self {
        let mut s = self.clone();
        if r.chance(1, 2) {
            s.name = s.name.mutate(r)
        } else {
            s.id = s.id.mutate(r)
        }
        s
    }
}

const SEPS: [&str; 7] = ["", "|", ",", " ", "\"|\"", ", ", "\", \""];
/// move the boundary between two rendered neighbours
fn shift2<A: Adv, B: Adv>(a: &A, b: &B, r: &mut Rng) -> Option<(A, B)> {
    let (ra, rb) = (a.render()?, b.render()?);
    let sep = *r.pick(&SEPS);
    let whole = format!("{}{}{}", ra, sep, rb);
    let cuts: Vec<usize> = whole.char_indices().map(|(i, _)| i).chain(std::iter::once(whole.len())).collect();
    for _ in 0..8 {
        let c = *r.pick(&cuts);
        let (l, rr) = whole.split_at(c);
        // the separator may or may not be part of the new pieces
        for (l2, r2) in [(l.to_string(), rr.to_string()), (l.to_string(), rr.strip_prefix(sep).unwrap_or(rr).to_string()), (l.strip_suffix(sep).unwrap_or(l).to_string(), rr.to_string())] {
            if let (Some(x), Some(y)) = (A::parse(&l2), B::parse(&r2)) {
                if vhooks::dg(&(&x, &y)) != vhooks::dg(&(a, b)) {
                    return Some((x, y));
                }
            }
        }
    }
    None
}

macro_rules! adv_tuple {
    ($($n:ident : $i:tt),+ ; $len:expr ; $(($p:tt, $q:tt, $P:ident, $Q:ident)),*) => {
        impl<$($n: Adv),+> Adv for ($($n,)+) {
            fn gen(r: &mut Rng) -> Self { ($($n::gen(r),)+) }
            fn mutate(&self, r: &mut Rng) -> Self {
                let mut t = self.clone();
                // boundary shifting between neighbours first
                if r.chance(1, 2) {
                    $( if r.chance(1, 2) { if let Some((x, y)) = shift2::<$P, $Q>(&self.$p, &self.$q, r) { t.$p = x; t.$q = y; return t; } } )*
                }
                let k = r.usize($len);
                $( if k == $i { t.$i = self.$i.mutate(r); } )+
                t
            }
        }
    };
}
adv_tuple!(A:0 ; 1 ; );
adv_tuple!(A:0, B:1 ; 2 ; (0, 1, A, B));
adv_tuple!(A:0, B:1, C:2 ; 3 ; (0, 1, A, B), (1, 2, B, C));
adv_tuple!(A:0, B:1, C:2, D:3 ; 4 ; (0, 1, A, B), (1, 2, B, C), (2, 3, C, D));
adv_tuple!(A:0, B:1, C:2, D:3, E:4 ; 5 ; (0, 1, A, B), (1, 2, B, C), (2, 3, C, D), (3, 4, D, E));

// ------------------------------------------------------------------------------------------
// shapes
// ------------------------------------------------------------------------------------------
type CallFn<T> = fn(&T) -> u64;
struct Shape<T: Adv> {
    name: &'static str,
    sync_name: &'static str,
    async_name: &'static str,
    sync_call: CallFn<T>,
    async_call: CallFn<T>,
}

macro_rules! shape {
    ($sname:ident, $sync:ident, $asyn:ident, [$($a:ident : $t:ty),*], $owned:ty, |$tv:ident| [$($pass:expr),*]) => {
        #[cache]
        pub fn $sync($($a: $t),*) -> u64 { next_serial() }
        #[cache_async]
        pub async fn $asyn($($a: $t),*) -> u64 { next_serial() }
        fn $sname() -> Shape<$owned> {
            Shape {
                name: stringify!($sname), sync_name: stringify!($sync), async_name: stringify!($asyn),
                sync_call: |$tv: &$owned| $sync($($pass),*),
                async_call: |$tv: &$owned| vhooks::block_on($asyn($($pass),*)),
            }
        }
    };
}
shape!(s_string, k_string, ka_string, [a: String], (String,), |t| [t.0.clone()]);
shape!(s_str, k_str, ka_str, [a: &str], (String,), |t| [t.0.as_str()]);
shape!(s_i64, k_i64, ka_i64, [a: i64], (i64,), |t| [t.0]);
shape!(s_f64, k_f64, ka_f64, [a: f64], (f64,), |t| [t.0]);
shape!(s_char, k_char, ka_char, [a: char], (char,), |t| [t.0]);
shape!(s_optstr, k_optstr, ka_optstr, [a: Option<String>], (Option<String>,), |t| [t.0.clone()]);
shape!(s_vecstr, k_vecstr, ka_vecstr, [a: Vec<String>], (Vec<String>,), |t| [t.0.clone()]);
shape!(s_tup, k_tup, ka_tup, [a: (String, String)], ((String, String),), |t| [t.0.clone()]);
shape!(s_optopt, k_optopt, ka_optopt, [a: Option<Option<i32>>], (Option<Option<i32>>,), |t| [t.0]);
shape!(s_slice, k_slice, ka_slice, [a: &[String]], (Vec<String>,), |t| [&t.0[..]]);
shape!(s_users, k_users, ka_users, [a: UserS], (UserS,), |t| [t.0.clone()]);
shape!(s_usere, k_usere, ka_usere, [a: UserE], (UserE,), |t| [t.0.clone()]);
shape!(s_str2, k_str2, ka_str2, [a: String, b: String], (String, String), |t| [t.0.clone(), t.1.clone()]);
shape!(s_ref2, k_ref2, ka_ref2, [a: &str, b: &str], (String, String), |t| [t.0.as_str(), t.1.as_str()]);
shape!(s_int2, k_int2, ka_int2, [a: i32, b: i32], (i32, i32), |t| [t.0, t.1]);
shape!(s_u64x2, k_u64x2, ka_u64x2, [a: u64, b: u64], (u64, u64), |t| [t.0, t.1]);
shape!(s_strint, k_strint, ka_strint, [a: String, b: i32], (String, i32), |t| [t.0.clone(), t.1]);
shape!(s_intstr, k_intstr, ka_intstr, [a: i32, b: String], (i32, String), |t| [t.0, t.1.clone()]);
shape!(s_char2, k_char2, ka_char2, [a: char, b: char], (char, char), |t| [t.0, t.1]);
shape!(s_f64x2, k_f64x2, ka_f64x2, [a: f64, b: f64], (f64, f64), |t| [t.0, t.1]);
shape!(s_optstr_str, k_optstr_str, ka_optstr_str, [a: Option<String>, b: String], (Option<String>, String), |t| [t.0.clone(), t.1.clone()]);
shape!(s_vec2, k_vec2, ka_vec2, [a: Vec<String>, b: Vec<String>], (Vec<String>, Vec<String>), |t| [t.0.clone(), t.1.clone()]);
shape!(s_boolstr, k_boolstr, ka_boolstr, [a: bool, b: String], (bool, String), |t| [t.0, t.1.clone()]);
shape!(s_str3, k_str3, ka_str3, [a: String, b: String, c: String], (String, String, String), |t| [t.0.clone(), t.1.clone(), t.2.clone()]);
shape!(s_u8x3, k_u8x3, ka_u8x3, [a: u8, b: u8, c: u8], (u8, u8, u8), |t| [t.0, t.1, t.2]);
shape!(s_five, k_five, ka_five, [a: String, b: i32, c: char, d: bool, e: String], (String, i32, char, bool, String), |t| [t.0.clone(), t.1, t.2, t.3, t.4.clone()]);

shape!(s_u128, k_u128, ka_u128, [a: u128, b: u128], (u128, u128), |t| [t.0, t.1]);
shape!(s_i128, k_i128, ka_i128, [a: i128], (i128,), |t| [t.0]);
shape!(s_vecwide, k_vecwide, ka_vecwide, [a: Vec<u128>, b: Option<i128>], (Vec<u128>, Option<i128>), |t| [t.0.clone(), t.1]);
shape!(s_i8x3, k_i8x3, ka_i8x3, [a: i8, b: i8, c: i8], (i8, i8, i8), |t| [t.0, t.1, t.2]);
shape!(s_f32x2, k_f32x2, ka_f32x2, [a: f32, b: f32], (f32, f32), |t| [t.0, t.1]);
shape!(s_nested, k_nested, ka_nested, [a: (i32, i32), b: i32], ((i32, i32), i32), |t| [t.0, t.1]);
shape!(s_optvec, k_optvec, ka_optvec, [a: Option<Vec<String>>], (Option<Vec<String>>,), |t| [t.0.clone()]);
shape!(s_vecopt, k_vecopt, ka_vecopt, [a: Vec<Option<i32>>], (Vec<Option<i32>>,), |t| [t.0.clone()]);
shape!(s_sos, k_sos, ka_sos, [a: String, b: Option<String>, c: String], (String, Option<String>, String), |t| [t.0.clone(), t.1.clone(), t.2.clone()]);
shape!(s_vecint2, k_vecint2, ka_vecint2, [a: Vec<u32>, b: Vec<u32>], (Vec<u32>, Vec<u32>), |t| [t.0.clone(), t.1.clone()]);
shape!(s_usize_str, k_usize_str, ka_usize_str, [a: usize, b: &str, c: i16], (usize, String, i16), |t| [t.0, t.1.as_str(), t.2]);

// parameter names a macro implementation might also use for its own temporaries: every
// argument must still reach the key (macro hygiene).  Written out by hand: identifiers that pass
// through macro_rules carry their own hygiene context and would hide a clash.
#[cache]
pub fn k_names1(key: u32, buf: Vec<u8>, cached: String) -> u64 {
    next_serial()
}
#[cache_async]
pub async fn ka_names1(key: u32, buf: Vec<u8>, cached: String) -> u64 {
    next_serial()
}
fn s_names1() -> Shape<(u32, Vec<u8>, String)> {
    Shape { name: "s_names1", sync_name: "k_names1", async_name: "ka_names1", sync_call: |t: &(u32, Vec<u8>, String)| k_names1(t.0, t.1.clone(), t.2.clone()), async_call: |t: &(u32, Vec<u8>, String)| vhooks::block_on(ka_names1(t.0, t.1.clone(), t.2.clone())) }
}
#[cache]
pub fn k_names2(result: i32, order: String, map: i32) -> u64 {
    next_serial()
}
#[cache_async]
pub async fn ka_names2(result: i32, order: String, map: i32) -> u64 {
    next_serial()
}
fn s_names2() -> Shape<(i32, String, i32)> {
    Shape { name: "s_names2", sync_name: "k_names2", async_name: "ka_names2", sync_call: |t: &(i32, String, i32)| k_names2(t.0, t.1.clone(), t.2), async_call: |t: &(i32, String, i32)| vhooks::block_on(ka_names2(t.0, t.1.clone(), t.2)) }
}
#[cache]
pub fn k_names3(entry: String, value: u8, cache: String) -> u64 {
    next_serial()
}
#[cache_async]
pub async fn ka_names3(entry: String, value: u8, cache: String) -> u64 {
    next_serial()
}
fn s_names3() -> Shape<(String, u8, String)> {
    Shape { name: "s_names3", sync_name: "k_names3", async_name: "ka_names3", sync_call: |t: &(String, u8, String)| k_names3(t.0.clone(), t.1, t.2.clone()), async_call: |t: &(String, u8, String)| vhooks::block_on(ka_names3(t.0.clone(), t.1, t.2.clone())) }
}
#[cache]
pub fn k_names4(parts: u16, key_parts: u16, joined: u16, s: u16, k: u16) -> u64 {
    next_serial()
}
#[cache_async]
pub async fn ka_names4(parts: u16, key_parts: u16, joined: u16, s: u16, k: u16) -> u64 {
    next_serial()
}
fn s_names4() -> Shape<(u16, u16, u16, u16, u16)> {
    Shape { name: "s_names4", sync_name: "k_names4", async_name: "ka_names4", sync_call: |t: &(u16, u16, u16, u16, u16)| k_names4(t.0, t.1, t.2, t.3, t.4), async_call: |t: &(u16, u16, u16, u16, u16)| vhooks::block_on(ka_names4(t.0, t.1, t.2, t.3, t.4)) }
}
#[cache]
pub fn k_names5(stats: String, scope: String, policy: String) -> u64 {
    next_serial()
}
#[cache_async]
pub async fn ka_names5(stats: String, scope: String, policy: String) -> u64 {
    next_serial()
}
fn s_names5() -> Shape<(String, String, String)> {
    Shape { name: "s_names5", sync_name: "k_names5", async_name: "ka_names5", sync_call: |t: &(String, String, String)| k_names5(t.0.clone(), t.1.clone(), t.2.clone()), async_call: |t: &(String, String, String)| vhooks::block_on(ka_names5(t.0.clone(), t.1.clone(), t.2.clone())) }
}
#[cache]
pub fn k_names6(o: i64, m: i64, v: i64, e: i64) -> u64 {
    next_serial()
}
#[cache_async]
pub async fn ka_names6(o: i64, m: i64, v: i64, e: i64) -> u64 {
    next_serial()
}
fn s_names6() -> Shape<(i64, i64, i64, i64)> {
    Shape { name: "s_names6", sync_name: "k_names6", async_name: "ka_names6", sync_call: |t: &(i64, i64, i64, i64)| k_names6(t.0, t.1, t.2, t.3), async_call: |t: &(i64, i64, i64, i64)| vhooks::block_on(ka_names6(t.0, t.1, t.2, t.3)) }
}
#[cache]
pub fn k_names7(first: String, rest: String, only: String) -> u64 {
    next_serial()
}
#[cache_async]
pub async fn ka_names7(first: String, rest: String, only: String) -> u64 {
    next_serial()
}
fn s_names7() -> Shape<(String, String, String)> {
    Shape { name: "s_names7", sync_name: "k_names7", async_name: "ka_names7", sync_call: |t: &(String, String, String)| k_names7(t.0.clone(), t.1.clone(), t.2.clone()), async_call: |t: &(String, String, String)| vhooks::block_on(ka_names7(t.0.clone(), t.1.clone(), t.2.clone())) }
}
#[cache]
pub fn k_names8(out: u32, acc: u32, tmp: u32, key_str: u32) -> u64 {
    next_serial()
}
#[cache_async]
pub async fn ka_names8(out: u32, acc: u32, tmp: u32, key_str: u32) -> u64 {
    next_serial()
}
fn s_names8() -> Shape<(u32, u32, u32, u32)> {
    Shape { name: "s_names8", sync_name: "k_names8", async_name: "ka_names8", sync_call: |t: &(u32, u32, u32, u32)| k_names8(t.0, t.1, t.2, t.3), async_call: |t: &(u32, u32, u32, u32)| vhooks::block_on(ka_names8(t.0, t.1, t.2, t.3)) }
}

// parameters bound through patterns (destructured in the signature): how the callee binds an
// argument is invisible to the caller, so every component still has to reach the key.  Written by
// hand for the same reason as above.
#[cache]
pub fn k_pat_tup((a, b): (i32, i32)) -> u64 {
    let _ = (a, b);
    next_serial()
}
#[cache_async]
pub async fn ka_pat_tup((a, b): (i32, i32)) -> u64 {
    let _ = (a, b);
    next_serial()
}
fn s_pat_tup() -> Shape<((i32, i32),)> {
    Shape { name: "s_pat_tup", sync_name: "k_pat_tup", async_name: "ka_pat_tup", sync_call: |t: &((i32, i32),)| k_pat_tup(t.0), async_call: |t: &((i32, i32),)| vhooks::block_on(ka_pat_tup(t.0)) }
}
#[cache]
pub fn k_pat_mix(n: i32, (lo, hi): (u8, u8), z: i32) -> u64 {
    let _ = (n, lo, hi, z);
    next_serial()
}
#[cache_async]
pub async fn ka_pat_mix(n: i32, (lo, hi): (u8, u8), z: i32) -> u64 {
    let _ = (n, lo, hi, z);
    next_serial()
}
fn s_pat_mix() -> Shape<(i32, (u8, u8), i32)> {
    Shape { name: "s_pat_mix", sync_name: "k_pat_mix", async_name: "ka_pat_mix", sync_call: |t: &(i32, (u8, u8), i32)| k_pat_mix(t.0, t.1, t.2), async_call: |t: &(i32, (u8, u8), i32)| vhooks::block_on(ka_pat_mix(t.0, t.1, t.2)) }
}
#[derive(Debug, Clone, Copy, PartialEq)]
pub struct Pt {
    pub x: i32,
    pub y: i64,
}
impl cachelito_core::DefaultCacheableKey for Pt {}
impl vhooks::Dg for Pt {
    fn dg(&self, h: &mut vhooks::Hs) {
        h.byte(106);
        self.x.dg(h);
        self.y.dg(h);
    }
}
impl Adv for Pt {
    fn gen(r: &mut Rng) -> Self {
        Pt { x: i32::gen(r), y: i64::gen(r) }
    }
    fn mutate(&self, r: &mut Rng) -> Self {
        let mut s = *self;
        if r.chance(1, 2) {
            s.x = s.x.mutate(r)
        } else {
            s.y = s.y.mutate(r)
        }
        s
    }
}
#[derive(Debug, Clone, Copy, PartialEq)]
pub struct Wr(pub u64);
impl cachelito_core::DefaultCacheableKey for Wr {}
impl vhooks::Dg for Wr {
    fn dg(&self, h: &mut vhooks::Hs) {
        h.byte(107);
        self.0.dg(h);
    }
}
impl Adv for Wr {
    fn gen(r: &mut Rng) -> Self {
        Wr(u64::gen(r))
    }
    fn mutate(&self, r: &mut Rng) -> Self {
        Wr(self.0.mutate(r))
    }
}
#[cache]
pub fn k_pat_struct(Pt { x, y }: Pt, Wr(v): Wr) -> u64 {
    let _ = (x, y, v);
    next_serial()
}
#[cache_async]
pub async fn ka_pat_struct(Pt { x, y }: Pt, Wr(v): Wr) -> u64 {
    let _ = (x, y, v);
    next_serial()
}
fn s_pat_struct() -> Shape<(Pt, Wr)> {
    Shape { name: "s_pat_struct", sync_name: "k_pat_struct", async_name: "ka_pat_struct", sync_call: |t: &(Pt, Wr)| k_pat_struct(t.0, t.1), async_call: |t: &(Pt, Wr)| vhooks::block_on(ka_pat_struct(t.0, t.1)) }
}
impl Recv {
    #[cache]
    pub fn km_pat(&self, (row, col): (u32, u32)) -> u64 {
        let _ = (row, col);
        next_serial()
    }
    #[cache_async]
    pub async fn kma_pat(&self, (row, col): (u32, u32)) -> u64 {
        let _ = (row, col);
        next_serial()
    }
}
fn s_m_pat() -> Shape<(Recv, (u32, u32))> {
    Shape { name: "s_m_pat", sync_name: "km_pat", async_name: "kma_pat", sync_call: |t| t.0.km_pat(t.1), async_call: |t| vhooks::block_on(t.0.kma_pat(t.1)) }
}

// methods
impl Recv {
    #[cache]
    pub fn km_val(self, a: String) -> u64 {
        next_serial()
    }
    #[cache_async]
    pub async fn kma_val(self, a: String) -> u64 {
        next_serial()
    }
    #[cache]
    pub fn km_mut(&mut self, a: i32) -> u64 {
        next_serial()
    }
    #[cache_async]
    pub async fn kma_mut(&mut self, a: i32) -> u64 {
        next_serial()
    }
}
fn s_m_val() -> Shape<(Recv, String)> {
    Shape { name: "s_m_val", sync_name: "km_val", async_name: "kma_val", sync_call: |t| t.0.clone().km_val(t.1.clone()), async_call: |t| vhooks::block_on(t.0.clone().kma_val(t.1.clone())) }
}
fn s_m_mut() -> Shape<(Recv, i32)> {
    Shape { name: "s_m_mut", sync_name: "km_mut", async_name: "kma_mut", sync_call: |t| t.0.clone().km_mut(t.1), async_call: |t| { let mut r = t.0.clone(); vhooks::block_on(r.kma_mut(t.1)) } }
}
impl Recv {
    #[cache]
    pub fn km_ref(&self, a: String) -> u64 {
        next_serial()
    }
    #[cache_async]
    pub async fn kma_ref(&self, a: String) -> u64 {
        next_serial()
    }
    #[cache]
    pub fn km_noarg(&self) -> u64 {
        next_serial()
    }
    #[cache_async]
    pub async fn kma_noarg(&self) -> u64 {
        next_serial()
    }
    #[cache]
    pub fn km_int2(&self, a: u32, b: u32) -> u64 {
        next_serial()
    }
    #[cache_async]
    pub async fn kma_int2(&self, a: u32, b: u32) -> u64 {
        next_serial()
    }
}
fn s_m_ref() -> Shape<(Recv, String)> {
    Shape { name: "s_m_ref", sync_name: "km_ref", async_name: "kma_ref", sync_call: |t| t.0.km_ref(t.1.clone()), async_call: |t| vhooks::block_on(t.0.kma_ref(t.1.clone())) }
}
fn s_m_noarg() -> Shape<(Recv,)> {
    Shape { name: "s_m_noarg", sync_name: "km_noarg", async_name: "kma_noarg", sync_call: |t| t.0.km_noarg(), async_call: |t| vhooks::block_on(t.0.kma_noarg()) }
}
fn s_m_int2() -> Shape<(Recv, u32, u32)> {
    Shape { name: "s_m_int2", sync_name: "km_int2", async_name: "kma_int2", sync_call: |t| t.0.km_int2(t.1, t.2), async_call: |t| vhooks::block_on(t.0.kma_int2(t.1, t.2)) }
}

// an argument type whose own cache key is computed with the help of another cached function
// (a custom CacheableKey that looks something up): building one call's key re-enters the macro's
// key-building code for another function, which must not disturb the parts already built
#[cache]
pub fn k_key_helper(tenant: u32, salt: u32) -> String {
    format!("t{}-{}", tenant, salt)
}
#[derive(Debug, Clone, PartialEq)]
pub struct Looked(pub u32);
impl cachelito_core::CacheableKey for Looked {
    fn to_cache_key(&self) -> String {
        format!("L[{}]", k_key_helper(self.0, 7))
    }
}
impl vhooks::Dg for Looked {
    fn dg(&self, h: &mut vhooks::Hs) {
        h.byte(108);
        self.0.dg(h);
    }
}
impl Adv for Looked {
    fn gen(r: &mut Rng) -> Self {
        Looked(u32::gen(r) % 5)
    }
    fn mutate(&self, r: &mut Rng) -> Self {
        Looked(self.0.mutate(r) % 7)
    }
}
#[cache]
pub fn k_reent_key(a: u32, b: String, c: Looked, d: u32) -> u64 {
    next_serial()
}
#[cache_async]
pub async fn ka_reent_key(a: u32, b: String, c: u32, d: u32) -> u64 {
    next_serial()
}
fn s_reent_key() -> Shape<(u32, String, Looked, u32)> {
    // (the async macro keys arguments by Debug: its twin takes the plain number)
    Shape { name: "s_reent_key", sync_name: "k_reent_key", async_name: "ka_reent_key", sync_call: |t: &(u32, String, Looked, u32)| k_reent_key(t.0, t.1.clone(), t.2.clone(), t.3), async_call: |t: &(u32, String, Looked, u32)| vhooks::block_on(ka_reent_key(t.0, t.1.clone(), (t.2).0, t.3)) }
}
impl Recv {
    #[cache]
    pub fn km_reent_key(&self, c: Looked) -> u64 {
        next_serial()
    }
    #[cache_async]
    pub async fn kma_reent_key(&self, c: u32) -> u64 {
        next_serial()
    }
}
fn s_m_reent_key() -> Shape<(Recv, Looked)> {
    Shape { name: "s_m_reent_key", sync_name: "km_reent_key", async_name: "kma_reent_key", sync_call: |t| t.0.km_reent_key(t.1.clone()), async_call: |t| vhooks::block_on(t.0.kma_reent_key((t.1).0)) }
}

// ------------------------------------------------------------------------------------------
// function item forms: the signature analysis of the macros must carry every argument into the
// key whatever the item looks like - explicit lifetimes, generics with bounds
// and where-clauses (one instantiation each), methods of a generic type, thirteen arguments
// (`mut` bindings are not accepted by the macros on the unchanged tree, so there is no such shape)
// ------------------------------------------------------------------------------------------
#[cache]
pub fn k_form_life<'a, 'b>(a: &'a str, b: &'b [u32], c: &'a String) -> u64 {
    let _ = (a, b, c);
    next_serial()
}
#[cache_async]
pub async fn ka_form_life<'a, 'b>(a: &'a str, b: &'b [u32], c: &'a String) -> u64 {
    let _ = (a, b, c);
    next_serial()
}
fn s_form_life() -> Shape<(String, Vec<u32>, String)> {
    Shape { name: "s_form_life", sync_name: "k_form_life", async_name: "ka_form_life", sync_call: |t| k_form_life(t.0.as_str(), &t.1[..], &t.2), async_call: |t| vhooks::block_on(ka_form_life(t.0.as_str(), &t.1[..], &t.2)) }
}
#[cache]
pub fn k_form_gen<T: std::fmt::Debug + Clone + cachelito_core::CacheableKey, U>(a: T, b: U, c: u8) -> u64
where
    U: std::fmt::Debug + Clone + cachelito_core::CacheableKey,
{
    let _ = (a, b, c);
    next_serial()
}
#[cache_async]
pub async fn ka_form_gen<T: std::fmt::Debug + Clone + Send, U>(a: T, b: U, c: u8) -> u64
where
    U: std::fmt::Debug + Clone + Send,
{
    let _ = (a, b, c);
    next_serial()
}
fn s_form_gen() -> Shape<(String, i64, u8)> {
    Shape { name: "s_form_gen", sync_name: "k_form_gen", async_name: "ka_form_gen", sync_call: |t| k_form_gen::<String, i64>(t.0.clone(), t.1, t.2), async_call: |t| vhooks::block_on(ka_form_gen::<String, i64>(t.0.clone(), t.1, t.2)) }
}
#[derive(Debug, Clone, PartialEq)]
pub struct GenRecv<T> {
    pub inner: T,
    pub n: u8,
}
impl<T: std::fmt::Debug> cachelito_core::DefaultCacheableKey for GenRecv<T> {}
impl<T: vhooks::Dg> vhooks::Dg for GenRecv<T> {
    fn dg(&self, h: &mut vhooks::Hs) {
        h.byte(109);
        self.inner.dg(h);
        self.n.dg(h);
    }
}
impl<T: Adv> Adv for GenRecv<T> {
    fn gen(r: &mut Rng) -> Self {
        GenRecv { inner: T::gen(r), n: u8::gen(r) % 3 }
    }
    fn mutate(&self, r: &mut Rng) -> Self {
        if r.chance(1, 2) {
            GenRecv { inner: self.inner.mutate(r), n: self.n }
        } else {
            GenRecv { inner: self.inner.clone(), n: self.n.wrapping_add(1) % 3 }
        }
    }
}
impl<T: std::fmt::Debug + Clone + Send + Sync> GenRecv<T> {
    #[cache]
    pub fn km_form_gen(&self, a: u32, b: String) -> u64 {
        let _ = (a, b);
        next_serial()
    }
    #[cache_async]
    pub async fn kma_form_gen(&self, a: u32, b: String) -> u64 {
        let _ = (a, b);
        next_serial()
    }
}
fn s_m_form_gen() -> Shape<(GenRecv<String>, u32, String)> {
    Shape { name: "s_m_form_gen", sync_name: "km_form_gen", async_name: "kma_form_gen", sync_call: |t| t.0.km_form_gen(t.1, t.2.clone()), async_call: |t| vhooks::block_on(t.0.kma_form_gen(t.1, t.2.clone())) }
}
#[cache]
#[allow(clippy::too_many_arguments)]
pub fn k_form_many(a0: u8, a1: u8, a2: u8, a3: u8, a4: u8, a5: String, a6: u8, a7: u8, a8: u8, a9: u8, a10: String, a11: u8, a12: u8) -> u64 {
    let _ = (a0, a1, a2, a3, a4, a5, a6, a7, a8, a9, a10, a11, a12);
    next_serial()
}
#[cache_async]
#[allow(clippy::too_many_arguments)]
pub async fn ka_form_many(a0: u8, a1: u8, a2: u8, a3: u8, a4: u8, a5: String, a6: u8, a7: u8, a8: u8, a9: u8, a10: String, a11: u8, a12: u8) -> u64 {
    let _ = (a0, a1, a2, a3, a4, a5, a6, a7, a8, a9, a10, a11, a12);
    next_serial()
}
type Many = ((u8, u8, u8, u8, u8), (String, u8, u8, u8, u8), (String, u8, u8));
fn s_form_many() -> Shape<Many> {
    Shape {
        name: "s_form_many", sync_name: "k_form_many", async_name: "ka_form_many",
        sync_call: |t: &Many| k_form_many((t.0).0, (t.0).1, (t.0).2, (t.0).3, (t.0).4, (t.1).0.clone(), (t.1).1, (t.1).2, (t.1).3, (t.1).4, (t.2).0.clone(), (t.2).1, (t.2).2),
        async_call: |t: &Many| vhooks::block_on(ka_form_many((t.0).0, (t.0).1, (t.0).2, (t.0).3, (t.0).4, (t.1).0.clone(), (t.1).1, (t.1).2, (t.1).3, (t.1).4, (t.2).0.clone(), (t.2).1, (t.2).2)),
    }
}
/// documented, attributed and restricted-visibility items inside a nested module
pub mod forms {
    use super::next_serial;
    use cachelito::cache;
    use cachelito_async::cache_async;
    /// doc comment before the attribute
    #[inline(never)]
    #[cache]
    #[allow(unused_variables)]
    /// doc comment after the attribute
    pub(crate) fn k_form_attr(a: i16, b: &str) -> u64 {
        next_serial()
    }
    /// doc comment before the attribute
    #[cache_async]
    #[allow(unused_variables)]
    pub(super) async fn ka_form_attr(a: i16, b: &str) -> u64 {
        next_serial()
    }
}
fn s_form_attr() -> Shape<(i16, String)> {
    Shape { name: "s_form_attr", sync_name: "k_form_attr", async_name: "ka_form_attr", sync_call: |t| forms::k_form_attr(t.0, t.1.as_str()), async_call: |t| vhooks::block_on(forms::ka_form_attr(t.0, t.1.as_str())) }
}

// underscore-prefixed parameter names only silence the unused-variable lint: the body may read
// them all the same, so they are arguments like any other
#[cache]
pub fn k_form_under(_a: i64, b: u8, _prefix: String, __c: u16) -> u64 {
    let _ = (_a, b, &_prefix, __c);
    next_serial()
}
#[cache_async]
pub async fn ka_form_under(_a: i64, b: u8, _prefix: String, __c: u16) -> u64 {
    let _ = (_a, b, &_prefix, __c);
    next_serial()
}
fn s_form_under() -> Shape<(i64, u8, String, u16)> {
    Shape { name: "s_form_under", sync_name: "k_form_under", async_name: "ka_form_under", sync_call: |t| k_form_under(t.0, t.1, t.2.clone(), t.3), async_call: |t| vhooks::block_on(ka_form_under(t.0, t.1, t.2.clone(), t.3)) }
}
impl Recv {
    #[cache]
    pub fn km_form_under(&self, _zone: u8, _s: String) -> u64 {
        next_serial()
    }
    #[cache_async]
    pub async fn kma_form_under(&self, _zone: u8, _s: String) -> u64 {
        next_serial()
    }
}
fn s_m_form_under() -> Shape<(Recv, u8, String)> {
    Shape { name: "s_m_form_under", sync_name: "km_form_under", async_name: "kma_form_under", sync_call: |t| t.0.km_form_under(t.1, t.2.clone()), async_call: |t| vhooks::block_on(t.0.kma_form_under(t.1, t.2.clone())) }
}

fn listing_len(name: &str) -> Option<usize> {
    let n = std::cell::Cell::new(0usize);
    let ok = cachelito_core::invalidate_with(name, |_| {
        n.set(n.get() + 1);
        false
    });
    if ok {
        Some(n.get())
    } else {
        None
    }
}
fn flush(name: &str) {
    cachelito_core::invalidate_with(name, |_| true);
}

fn run_shape<T: Adv>(sh: &Shape<T>, rep: &mut Report, rng: &mut Rng, pairs: u64) {
    for (flavour, call, name) in [("sync", sh.sync_call, sh.sync_name), ("async", sh.async_call, sh.async_name)] {
        flush(name);
        // digest -> serial of every tuple stored since the last flush
        let mut stored: HashMap<u64, u64> = HashMap::new();
        let mut check = |t: &T, rep: &mut Report, stored: &mut HashMap<u64, u64>, other: Option<&T>, how: &str| -> bool {
            let d = vhooks::dg(t);
            let before = SERIAL.load(Ordering::SeqCst);
            let v = call(t);
            let executed = SERIAL.load(Ordering::SeqCst) != before;
            rep.count("KEY", "calls", 1);
            match stored.get(&d) {
                Some(s) => {
                    if executed || v != *s {
                        // the same tuple must find its own entry (C03-ish, reported under C02 only if
                        // it got somebody else's value)
                        if !executed {
                            rep.violation("C02", &format!("C02|KEY|{}|{}|repeat-call-served-other-entry|", flavour, sh.name), &format!("{}: repeating {:?} returned serial {} instead of {}", name, t, v, s), json!({"shape": sh.name, "fn": name, "args": format!("{:?}", t)}));
                            return false;
                        }
                        stored.insert(d, v);
                    }
                }
                None => {
                    if !executed {
                        let culprit = other.map(|o| format!("{:?}", o)).unwrap_or_default();
                        rep.violation("C02", &format!("C02|KEY|{}|{}|distinct-tuples-share-entry|{}", flavour, sh.name, how), &format!("{}: call with {:?} did not run the body and returned serial {} cached for other arguments {}", name, t, v, culprit), json!({"monitor": "keymon", "shape": sh.name, "fn": name, "args": format!("{:?}", t), "previous_args": culprit, "pair_kind": how}));
                        return false;
                    }
                    stored.insert(d, v);
                }
            }
            true
        };
        let mut since_flush = 0u64;
        for i in 0..pairs {
            let a = T::gen(rng);
            let (b, how) = match rng.usize(10) {
                0..=5 => (a.mutate(rng), "mutation-or-boundary-shift"),
                _ => (T::gen(rng), "independent"),
            };
            if vhooks::dg(&a) == vhooks::dg(&b) {
                continue;
            }
            rep.count("C02", "pairs", 1);
            rep.count("C02", if how == "independent" { "independent_pairs" } else { "mutated_or_shifted_pairs" }, 1);
            rep.distinct("C02", hash64(&[hash_str(name), vhooks::dg(&a), vhooks::dg(&b)]));
            if !check(&a, rep, &mut stored, None, how) || !check(&b, rep, &mut stored, Some(&a), how) || !check(&a, rep, &mut stored, Some(&b), how) {
                return;
            }
            if i == 0 {
                rep.sample("C02", json!({"fn": name, "a": format!("{:?}", a), "b": format!("{:?}", b), "pair_kind": how, "verdict": "two executions, two serials, a served its own serial again"}), 40);
            }
            since_flush += 1;
            if since_flush == 32 {
                since_flush = 0;
                rep.count("C02", "listing_count_checks", 1);
                match listing_len(name) {
                    Some(n) if n == stored.len() => {}
                    got => {
                        rep.violation("C02", &format!("C02|KEY|{}|{}|listing-count|", flavour, sh.name), &format!("{}: {:?} key strings listed for {} distinct tuples stored", name, got, stored.len()), json!({"monitor": "keymon", "shape": sh.name, "fn": name}));
                        return;
                    }
                }
                flush(name);
                stored.clear();
            }
        }
    }
}

fn main() {
    let args: Vec<String> = std::env::args().collect();
    let mut out = String::from("/dev/stdout");
    let mut seed = vmon::rng::seed_from_env();
    let mut shard = (0usize, 1usize);
    let mut tier = String::from("quick");
    let mut i = 1;
    while i + 1 < args.len() + 1 {
        if i >= args.len() {
            break;
        }
        let nx = args.get(i + 1).cloned().unwrap_or_default();
        match args[i].as_str() {
            "--out" => out = nx,
            "--seed" => seed = nx.parse().unwrap(),
            "--shard" => {
                let p: Vec<usize> = nx.split('/').map(|x| x.parse().unwrap()).collect();
                shard = (p[0], p[1]);
            }
            "--tier" => tier = nx,
            _ => {
                i += 1;
                continue;
            }
        }
        i += 2;
    }
    let t0 = std::time::Instant::now();
    let mut rep = Report::new();
    let pairs: u64 = std::env::var("VERIF_KEY_PAIRS").ok().and_then(|s| s.parse().ok()).unwrap_or(if tier == "thorough" { 400_000 } else { 6_000 });
    let mut rng = Rng::new(seed.wrapping_mul(0x9E37_79B9) ^ ((shard.0 as u64) << 32));
    macro_rules! go { ($($s:ident),*) => { $( { let sh = $s(); let mut r = rng.fork(hash_str(sh.name)); run_shape(&sh, &mut rep, &mut r, pairs); rep.count("C02", "shapes_x_flavours", 2); } )* } }
    go!(s_string, s_str, s_i64, s_f64, s_char, s_optstr, s_vecstr, s_tup, s_optopt, s_slice, s_users, s_usere, s_str2, s_ref2, s_int2, s_u64x2, s_strint, s_intstr, s_char2, s_f64x2, s_optstr_str, s_vec2, s_boolstr, s_str3, s_u8x3, s_five, s_m_ref, s_m_noarg, s_m_int2, s_u128, s_i8x3, s_f32x2, s_nested, s_optvec, s_vecopt, s_sos, s_vecint2, s_usize_str, s_m_val, s_m_mut, s_names1, s_names2, s_names3, s_names4, s_names5, s_names6, s_names7, s_names8, s_i128, s_vecwide, s_pat_tup, s_pat_mix, s_pat_struct, s_m_pat, s_reent_key, s_m_reent_key, s_form_life, s_form_gen, s_m_form_gen, s_form_many, s_form_attr, s_form_under, s_m_form_under);
    rep.notes.push(format!("keymon shard {}/{} seed {} tier {} pairs/shape {} wall {:.2}s", shard.0, shard.1, seed, tier, pairs, t0.elapsed().as_secs_f64()));
    rep.write(&out);
}
