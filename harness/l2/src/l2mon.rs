//! l2mon — sequential monitor at macro level (channel L2): drives the generated corpus of
//! #[cache] / #[cache_async] functions (real macro expansions) with generated multi-cache,
//! multi-thread (but serialised) histories on the virtual clock.  Observes per call: the
//! returned value, whether the body ran, cache_if / invalidate_on invocations, the key listing
//! (never-matching invalidate_with predicate) and stats_registry; compares with the wrapper
//! model.  Decides C01, C03, C09–C16, C19 (behavioural part) at macro level.
//!
//! usage: l2mon --out FILE [--seed N] [--shard I/N] [--tier quick|thorough] [--focus Cxx] [--replay FILE]

use serde_json::{json, Value};
use std::cell::RefCell;
use std::collections::{BTreeMap, BTreeSet, HashMap};
use std::sync::mpsc;
use vhooks::{CallOut, Event, ExecPlan, FnDesc};
use vmon::classify::{classify_store, sig};
use vmon::model::{self, ttl_ns, Belief, Cfg, Flavour, Key, Policy, State, Step, SEC};
use vmon::report::{hash64, hash_str, Report};
use vmon::rng::Rng;
use vmon::wrapper::{self, CallOutcome, Plan, StoreDecision, Why, WrapDesc};

vmon::install_virtual_clock!();

// ------------------------------------------------------------------------------------------
// actors: fresh worker threads per history; every decorated call runs on one of them
// ------------------------------------------------------------------------------------------
enum JobKind {
    /// a complete call (gates open)
    Call(fn(u32) -> CallOut),
    /// create the future and poll it once with all gates closed
    Start(fn(u32) -> vhooks::BoxFut),
    /// let the suspended future pass one gate and poll it again
    Step,
    /// drop the suspended future
    Drop,
}
struct Job {
    kind: JobKind,
    slot: u32,
    arm: Option<ExecPlan>,
    pred: Option<bool>,
    check: Option<bool>,
    /// what the body does besides returning (re-entrant call, panic), if it runs
    nested: Option<vhooks::NestedPlan>,
}
struct JobOut {
    /// Ok(Some) = completed, Ok(None) = pending (or dropped)
    out: Result<Option<CallOut>, String>,
    events: Vec<Event>,
    /// locks held by the actor thread when the job returned (must be empty at a suspension point)
    held: Vec<String>,
    /// what the scripted re-entrant part of the body did (None: the body did not run)
    nested: Option<vhooks::NestedOut>,
}
struct Actor {
    tx: mpsc::Sender<Job>,
    rx: mpsc::Receiver<JobOut>,
    handle: Option<std::thread::JoinHandle<()>>,
}
fn panic_text(p: Box<dyn std::any::Any + Send>) -> String {
    if let Some(s) = p.downcast_ref::<&str>() {
        s.to_string()
    } else if let Some(s) = p.downcast_ref::<String>() {
        s.clone()
    } else {
        "non-string panic".into()
    }
}
impl Actor {
    fn spawn() -> Actor {
        let (tx, jrx) = mpsc::channel::<Job>();
        let (otx, rx) = mpsc::channel::<JobOut>();
        let handle = std::thread::spawn(move || {
            let mut susp: Option<vhooks::BoxFut> = None;
            let waker = vhooks::noop_waker();
            while let Ok(j) = jrx.recv() {
                vhooks::take_log();
                match j.arm {
                    Some(p) => vhooks::arm_exec(p),
                    None => vhooks::disarm_exec(),
                }
                vhooks::arm_pred(j.pred);
                vhooks::arm_check(j.check);
                vhooks::arm_nested(j.nested);
                let mut cx = std::task::Context::from_waker(&waker);
                let out: Result<Option<CallOut>, String> = match j.kind {
                    JobKind::Call(call) => {
                        vhooks::gates_closed(false);
                        let r = std::panic::catch_unwind(|| call(j.slot));
                        if susp.is_some() {
                            vhooks::gates_closed(true);
                        }
                        r.map(Some).map_err(panic_text)
                    }
                    JobKind::Start(mk) => {
                        vhooks::gates_closed(true);
                        let mut f = mk(j.slot);
                        let r = std::panic::catch_unwind(std::panic::AssertUnwindSafe(|| f.as_mut().poll(&mut cx)));
                        match r {
                            Ok(std::task::Poll::Ready(co)) => {
                                vhooks::gates_closed(false);
                                Ok(Some(co))
                            }
                            Ok(std::task::Poll::Pending) => {
                                susp = Some(f);
                                Ok(None)
                            }
                            Err(p) => {
                                vhooks::gates_closed(false);
                                Err(panic_text(p))
                            }
                        }
                    }
                    JobKind::Step => match susp.as_mut() {
                        None => Ok(None),
                        Some(f) => {
                            vhooks::gate_permit(1);
                            let r = std::panic::catch_unwind(std::panic::AssertUnwindSafe(|| f.as_mut().poll(&mut cx)));
                            match r {
                                Ok(std::task::Poll::Ready(co)) => {
                                    susp = None;
                                    vhooks::gates_closed(false);
                                    Ok(Some(co))
                                }
                                Ok(std::task::Poll::Pending) => Ok(None),
                                Err(p) => {
                                    susp = None;
                                    vhooks::gates_closed(false);
                                    Err(panic_text(p))
                                }
                            }
                        }
                    },
                    JobKind::Drop => {
                        susp = None;
                        vhooks::gates_closed(false);
                        Ok(None)
                    }
                };
                vhooks::disarm_exec();
                let nested = vhooks::take_nested();
                vhooks::arm_nested(None);
                let events = vhooks::take_log();
                let held = vmon::lockmon::held_now().iter().map(|h| vmon::lockmon::fmt_site(h.site)).collect();
                if otx.send(JobOut { out, events, held, nested }).is_err() {
                    break;
                }
            }
        });
        Actor { tx, rx, handle: Some(handle) }
    }
    fn run(&self, j: Job) -> JobOut {
        self.tx.send(j).unwrap();
        self.rx.recv().unwrap()
    }
}
impl Drop for Actor {
    fn drop(&mut self) {
        let (tx, _) = mpsc::channel::<Job>();
        drop(std::mem::replace(&mut self.tx, tx));
        if let Some(h) = self.handle.take() {
            let _ = h.join();
        }
    }
}

// ------------------------------------------------------------------------------------------
// observation helpers (public API only)
// ------------------------------------------------------------------------------------------
fn listing(name: &str) -> Option<Vec<String>> {
    let v = RefCell::new(Vec::new());
    let ok = cachelito_core::invalidate_with(name, |k| {
        v.borrow_mut().push(k.to_string());
        false
    });
    if ok {
        let mut l = v.into_inner();
        l.sort();
        Some(l)
    } else {
        None
    }
}
fn stats_of(name: &str) -> Option<(u64, u64)> {
    cachelito_core::stats_registry::get(name).map(|s| (s.hits(), s.misses()))
}

fn cfg_of(d: &FnDesc) -> Cfg {
    Cfg {
        flavour: if d.is_async { Flavour::Async } else if d.scope_thread { Flavour::Thread } else { Flavour::Global },
        policy: Policy::from_name(d.policy).unwrap(),
        limit: d.limit,
        ttl: d.ttl,
        max_memory: d.max_memory,
        fw: d.fw,
        age_exact: false,
    }
}
fn wd_of(d: &FnDesc) -> WrapDesc {
    WrapDesc { is_async: d.is_async, is_result: d.is_result, has_cache_if: d.has_cache_if, has_invalidate_on: d.has_invalidate_on }
}
fn fp_base(kind: &str) -> usize {
    use std::mem::size_of;
    match kind {
        "string" => size_of::<String>(),
        "bytes" => size_of::<Vec<u8>>(),
        "opt_string" => size_of::<Option<String>>(),
        "std_res_string" => size_of::<Result<String, String>>(),
        "pair" => size_of::<(String, Vec<u32>)>() + 12,
        "boxed" => 8 + size_of::<String>(),
        "rec" => size_of::<corpus::gen::Rec>(),
        "vec_box" => size_of::<Vec<Box<String>>>() + 8 + size_of::<String>(),
        "opt_box" => size_of::<Option<Box<String>>>() + size_of::<String>(),
        "res_vec" => size_of::<Result<Vec<String>, String>>() + size_of::<String>(),
        _ => 8,
    }
}

// ------------------------------------------------------------------------------------------
// operations (fully explicit, so a recorded history replays exactly)
// ------------------------------------------------------------------------------------------
#[derive(Clone, Debug)]
enum Op {
    Call { f: usize, slot: u32, actor: usize, pure_: bool, value: u64, ok: bool, len: Option<usize>, pred: bool, check: bool },
    Adv(i64),
    InvWith { f: usize, slots: Vec<u32> },
    InvAllWith { pairs: Vec<(usize, Vec<u32>)> },
    InvTag(String),
    InvEvent(String),
    InvDep(String),
    InvName(String),
    StatsReset { f: usize },
    /// start an async call and poll it once with every await point closed (C20)
    PollStart { f: usize, slot: u32, actor: usize, pure_: bool, value: u64, ok: bool, len: Option<usize>, pred: bool, check: bool },
    /// open the next await point of the call suspended on `actor` and poll again
    PollStep { actor: usize },
    /// drop the call suspended on `actor`
    PollDrop { actor: usize },
    /// a call (`outer`, an Op::Call) whose body, if it runs, calls another decorated function from
    /// inside (`inner`, an Op::Call on the same thread: re-entrancy, as in a recursive memoised
    /// function) and/or panics (the user's own code fails)
    Nested { outer: Box<Op>, inner: Option<Box<Op>>, body_panics: bool },
}
fn op_json(o: &Op) -> Value {
    match o {
        Op::Call { f, slot, actor, pure_, value, ok, len, pred, check } => json!({"op":"call","f":f,"slot":slot,"actor":actor,"pure":pure_,"value":value,"ok":ok,"len":len,"pred":pred,"check":check}),
        Op::Adv(ns) => json!({"op":"adv","ns":ns}),
        Op::InvWith { f, slots } => json!({"op":"invalidate_with","f":f,"slots":slots}),
        Op::InvAllWith { pairs } => json!({"op":"invalidate_all_with","pairs":pairs}),
        Op::InvTag(t) => json!({"op":"invalidate_by_tag","name":t}),
        Op::InvEvent(t) => json!({"op":"invalidate_by_event","name":t}),
        Op::InvDep(t) => json!({"op":"invalidate_by_dependency","name":t}),
        Op::InvName(t) => json!({"op":"invalidate_cache","name":t}),
        Op::StatsReset { f } => json!({"op":"stats_reset","f":f}),
        Op::PollStart { f, slot, actor, pure_, value, ok, len, pred, check } => json!({"op":"poll_start","f":f,"slot":slot,"actor":actor,"pure":pure_,"value":value,"ok":ok,"len":len,"pred":pred,"check":check}),
        Op::PollStep { actor } => json!({"op":"poll_step","actor":actor}),
        Op::PollDrop { actor } => json!({"op":"poll_drop","actor":actor}),
        Op::Nested { outer, inner, body_panics } => json!({"op":"nested","outer":op_json(outer),"inner":inner.as_ref().map(|i| op_json(i)),"body_panics":body_panics}),
    }
}
fn op_from(v: &Value) -> Op {
    let u = |k: &str| v[k].as_u64().unwrap();
    match v["op"].as_str().unwrap() {
        "call" => Op::Call { f: u("f") as usize, slot: u("slot") as u32, actor: u("actor") as usize, pure_: v["pure"].as_bool().unwrap(), value: u("value"), ok: v["ok"].as_bool().unwrap(), len: v["len"].as_u64().map(|x| x as usize), pred: v["pred"].as_bool().unwrap(), check: v["check"].as_bool().unwrap() },
        "adv" => Op::Adv(v["ns"].as_i64().unwrap()),
        "invalidate_with" => Op::InvWith { f: u("f") as usize, slots: v["slots"].as_array().unwrap().iter().map(|x| x.as_u64().unwrap() as u32).collect() },
        "invalidate_all_with" => Op::InvAllWith { pairs: v["pairs"].as_array().unwrap().iter().map(|p| (p[0].as_u64().unwrap() as usize, p[1].as_array().unwrap().iter().map(|x| x.as_u64().unwrap() as u32).collect())).collect() },
        "invalidate_by_tag" => Op::InvTag(v["name"].as_str().unwrap().into()),
        "invalidate_by_event" => Op::InvEvent(v["name"].as_str().unwrap().into()),
        "invalidate_by_dependency" => Op::InvDep(v["name"].as_str().unwrap().into()),
        "invalidate_cache" => Op::InvName(v["name"].as_str().unwrap().into()),
        "poll_start" => Op::PollStart { f: u("f") as usize, slot: u("slot") as u32, actor: u("actor") as usize, pure_: v["pure"].as_bool().unwrap(), value: u("value"), ok: v["ok"].as_bool().unwrap(), len: v["len"].as_u64().map(|x| x as usize), pred: v["pred"].as_bool().unwrap(), check: v["check"].as_bool().unwrap() },
        "poll_step" => Op::PollStep { actor: u("actor") as usize },
        "poll_drop" => Op::PollDrop { actor: u("actor") as usize },
        "nested" => Op::Nested { outer: Box::new(op_from(&v["outer"])), inner: if v["inner"].is_null() { None } else { Some(Box::new(op_from(&v["inner"]))) }, body_panics: v["body_panics"].as_bool().unwrap_or(false) },
        _ => Op::StatsReset { f: u("f") as usize },
    }
}

// ------------------------------------------------------------------------------------------
// per-function monitor state
// ------------------------------------------------------------------------------------------
struct FnMon {
    d: &'static FnDesc,
    cfg: Cfg,
    wd: WrapDesc,
    /// thread scope: one belief per actor; otherwise a single shared one (index 0)
    beliefs: Vec<Belief>,
    keymap: BTreeMap<u32, String>,
    rev: HashMap<String, u32>,
    /// value id -> (was Ok, digest of the value) for everything this history's executions produced
    vals: HashMap<u64, (bool, u64)>,
    /// slot -> actor whose execution last produced a stored value (C14 attribution)
    stored_by: HashMap<u32, usize>,
    /// slot -> why the last execution's result was not stored
    nostore: HashMap<u32, StoreDecision>,
    slots: Vec<u32>,
    execs: HashMap<(usize, u32), u32>,
    /// (slot, cause) of entries removed by an expiry purge or an invalidation and not stored since,
    /// oldest first (u32::MAX = "whatever the initial reset removed")
    taint: Vec<(u32, &'static str)>,
    /// slots whose current entry was stored by an invalidate_on refresh (C11 attribution)
    refreshed: BTreeSet<u32>,
    /// slots whose current entry was stored by a call that had been suspended and resumed (C20 attribution)
    resumed_store: BTreeSet<u32>,
    /// deterministic body for the whole history (value = mix(fid, digest), always Ok): twin equality applies
    pure_: bool,
}
impl FnMon {
    fn shared(&self) -> bool {
        !self.d.scope_thread
    }
    fn belief_ix(&self, actor: usize) -> usize {
        if self.shared() {
            0
        } else {
            actor
        }
    }
}

/// process-wide facts the registry semantics depend on
struct Proc {
    used: BTreeSet<u32>,
}

struct Viol {
    prop: String,
    sig: String,
    what: String,
    detail: Value,
}
impl Viol {
    fn capacity_kind(&self) -> bool {
        matches!(self.prop.as_str(), "C04" | "C05" | "C07" | "C08")
    }
}

/// a call suspended at an await point inside its body
#[derive(Clone, Debug)]
struct Susp {
    f: usize,
    slot: u32,
    value: u64,
    ok: bool,
    pred: bool,
    gates_passed: u32,
    stale_refresh: bool,
    interleaved_ops: u32,
}

struct Hist<'a> {
    susp: HashMap<usize, Susp>,
    rep: &'a mut Report,
    proc_: &'a mut Proc,
    fns: Vec<FnMon>,
    actors: Vec<Actor>,
    ops: Vec<Op>,
    focus: String,
    seed: u64,
    hist_id: u64,
}

fn cfg_json(c: &Cfg) -> Value {
    json!({"flavour": c.flavour.name(), "policy": c.policy.name(), "limit": c.limit, "ttl": c.ttl, "max_memory": c.max_memory, "fw": c.fw})
}

impl<'a> Hist<'a> {
    fn witness(&self, detail: Value) -> Value {
        json!({
            "monitor": "l2mon",
            "group": self.fns.iter().map(|m| m.d.fid).collect::<Vec<_>>(),
            "group_attrs": self.fns.iter().map(|m| m.d.attr_text).collect::<Vec<_>>(),
            "actors": self.actors.len(),
            "seed": self.seed, "hist": self.hist_id, "focus": self.focus,
            "ops": self.ops.iter().map(op_json).collect::<Vec<_>>(),
            "detail": detail,
        })
    }
    fn fail(&mut self, v: Viol) {
        let fid = v.detail.get("fid").and_then(|x| x.as_u64());
        let taint = fid.and_then(|fid| self.fns.iter().find(|m| m.d.fid as u64 == fid)).and_then(|m| m.taint.last().copied());
        let cap = v.capacity_kind();
        let w = self.witness(v.detail);
        match taint {
            Some((slot, cause)) if cap => {
                let alt = if cause == "expiry-purge" { "C06" } else { "C13" };
                let what = format!("{} (earlier in this history: {} of slot {})", v.what, cause, if slot == u32::MAX { "some".to_string() } else { slot.to_string() });
                self.rep.violation_tainted(&v.prop, &v.sig, &what, w, alt, cause)
            }
            _ => self.rep.violation(&v.prop, &v.sig, &v.what, w),
        }
    }
    fn taint_removed(&mut self, fi: usize, slots: &[u32], cause: &'static str) {
        let m = &mut self.fns[fi];
        for s in slots {
            m.taint.retain(|(x, _)| x != s);
            m.taint.push((*s, cause));
        }
    }

    /// listing of a global/async function translated to slots; learns key strings
    fn observe_listing(&mut self, fi: usize, called_slot: Option<u32>) -> Result<Option<BTreeSet<u32>>, Viol> {
        let m = &mut self.fns[fi];
        if !m.shared() {
            return Ok(None);
        }
        let cfg = m.cfg;
        let l = listing(m.d.reg_name);
        let used = self.proc_.used.contains(&m.d.fid);
        let l = match l {
            None => {
                if used {
                    return Err(Viol { prop: "C13".into(), sig: sig("C13", "L2", &cfg, "invalidate_with-unknown-name-for-used-cache", ""), what: format!("invalidate_with({:?}, ..) returned false although the function has been called", m.d.reg_name), detail: json!({"fid": m.d.fid}) });
                }
                vec![]
            }
            Some(l) => l,
        };
        let mut set = BTreeSet::new();
        let mut fresh: Vec<&String> = vec![];
        for s in &l {
            match m.rev.get(s) {
                Some(slot) => {
                    set.insert(*slot);
                }
                None => fresh.push(s),
            }
        }
        if fresh.len() > 1 || (fresh.len() == 1 && called_slot.is_none()) {
            return Err(Viol { prop: "C01".into(), sig: sig("C01", "L2", &cfg, "unknown-keys-in-cache", ""), what: format!("cache {} lists keys nobody stored: {:?}", m.d.reg_name, fresh), detail: json!({"fid": m.d.fid, "listing": l}) });
        }
        if let (Some(s), Some(slot)) = (fresh.first(), called_slot) {
            if let Some(prev) = m.keymap.get(&slot) {
                if prev != *s {
                    return Err(Viol { prop: "C02".into(), sig: sig("C02", "L2", &cfg, "one-tuple-two-keys", ""), what: format!("argument tuple of slot {} was keyed {:?} before and {:?} now", slot, prev, s), detail: json!({"fid": m.d.fid}) });
                }
            }
            m.keymap.insert(slot, (*s).clone());
            m.rev.insert((*s).clone(), slot);
            set.insert(slot);
        }
        if set.len() != l.len() {
            return Err(Viol { prop: "C02".into(), sig: sig("C02", "L2", &cfg, "listing-shorter-than-distinct-tuples", ""), what: format!("{} key strings listed for {} distinct tuples", l.len(), set.len()), detail: json!({"fid": m.d.fid, "listing": l}) });
        }
        Ok(Some(set))
    }

    fn check_stats(&mut self, fi: usize) -> Result<(), Viol> {
        let m = &self.fns[fi];
        if !m.shared() {
            return Ok(());
        }
        let used = self.proc_.used.contains(&m.d.fid);
        let got = stats_of(m.d.reg_name);
        self.rep.count("C15", "stats_comparisons", 1);
        match (used, got) {
            (false, None) => Ok(()),
            (false, Some(_)) => Ok(()), // registered earlier under this name: nothing to compare yet
            (true, None) => Err(Viol { prop: "C15".into(), sig: sig("C15", "L2", &m.cfg, "stats-not-found-under-name", ""), what: format!("stats_registry::get({:?}) is None for a used cache", m.d.reg_name), detail: json!({"fid": m.d.fid}) }),
            (true, Some(g)) => {
                let ok = m.beliefs[0].states.iter().any(|s| (s.hits, s.misses) == g);
                if ok {
                    self.rep.distinct("C15", hash64(&[m.d.fid as u64, g.0.min(30), g.1.min(30)]));
                    Ok(())
                } else {
                    let want: Vec<(u64, u64)> = m.beliefs[0].states.iter().map(|s| (s.hits, s.misses)).take(4).collect();
                    Err(Viol { prop: "C15".into(), sig: sig("C15", "L2", &m.cfg, "hit-miss-counters", ""), what: format!("stats for {:?}: hits/misses {:?}, model {:?}", m.d.reg_name, g, want), detail: json!({"fid": m.d.fid}) })
                }
            }
        }
    }

    /// filter the (shared) belief of function `fi` by its current listing
    fn filter_by_listing(&mut self, fi: usize, called_slot: Option<u32>, ctx: &str) -> Result<(), Viol> {
        let set = match self.observe_listing(fi, called_slot)? {
            None => return Ok(()),
            Some(s) => s,
        };
        let m = &mut self.fns[fi];
        let before = m.beliefs[0].states.clone();
        let step = m.beliefs[0].advance(|s| {
            let ks: BTreeSet<u32> = s.keys();
            if ks == set {
                (vec![s.clone()], vec![])
            } else {
                (vec![], vec![format!("{:?}", ks)])
            }
        });
        match step {
            Step::Ok => Ok(()),
            _ => {
                let want: Vec<BTreeSet<u32>> = before.iter().map(|s| s.keys()).take(4).collect();
                let cfg = m.cfg;
                let (prop, kind) = match ctx {
                    "reset" => ("C13", "invalidate-all-left-entries"),
                    "invalidate_with" => ("C13", "conditional-invalidation-not-exact"),
                    "invalidate_all_with" => ("C13", "global-conditional-invalidation-not-exact"),
                    "group-matching" => ("C12", "matching-cache-not-emptied"),
                    "group-nonmatching" => ("C13", "non-matching-cache-lost-entries"),
                    "stats_reset" => ("C15", "stats-reset-changed-cache"),
                    "suspension" => ("C20", "suspended-call-changed-the-cache"),
                    "drop" => ("C20", "dropped-call-left-traces"),
                    _ => ("C04", "store-content-changed-without-operation"),
                };
                Err(Viol { prop: prop.into(), sig: sig(prop, "L2", &cfg, kind, ""), what: format!("after {}: cache {} holds slots {:?}, model expects {:?}", ctx, m.d.reg_name, set, want), detail: json!({"fid": m.d.fid}) })
            }
        }
    }

    fn do_call(&mut self, f: usize, slot: u32, actor: usize, pure_: bool, value: u64, ok: bool, len: Option<usize>, pred: bool, check: bool) -> Result<(), Viol> {
        let now = vmon::clock::now();
        let d = self.fns[f].d;
        let cfg = self.fns[f].cfg;
        let wd = self.fns[f].wd;
        let arm = if pure_ { None } else { Some(ExecPlan { value: Some(value), ok, len }) };
        let jo = self.actors[actor].run(Job { kind: JobKind::Call(d.call), slot, arm, pred: Some(pred), check: Some(check), nested: None });
        for s in self.susp.values_mut() {
            s.interleaved_ops += 1;
        }
        if !self.susp.is_empty() {
            self.rep.count("C20", "complete_calls_while_another_is_suspended", 1);
        }
        self.finish_call(f, slot, actor, pure_, value, ok, pred, check, jo, now, true)
    }

    /// everything after the real call returned: compare with the wrapper model
    #[allow(clippy::too_many_arguments)]
    fn finish_call(&mut self, f: usize, slot: u32, actor: usize, pure_: bool, value: u64, ok: bool, pred: bool, check: bool, jo: JobOut, now: i64, observe: bool) -> Result<(), Viol> {
        let d = self.fns[f].d;
        let cfg = self.fns[f].cfg;
        let wd = self.fns[f].wd;
        self.rep.count("L2", "calls", 1);
        self.rep.count("C16", "calls_under_catch_unwind", 1);
        self.proc_.used.insert(d.fid);
        let co = match jo.out {
            Ok(Some(c)) => c,
            Ok(None) => return Err(Viol { prop: "C20".into(), sig: sig("C20", "L2", &cfg, "complete-call-did-not-complete", ""), what: "a call with every await point open returned Pending".into(), detail: json!({"fid": d.fid}) }),
            Err(msg) => {
                let disc = format!("limit={},mem={}", d.limit.is_some(), d.max_memory.is_some());
                return Err(Viol { prop: "C16".into(), sig: sig("C16", "L2", &cfg, "panic-in-decorated-call", &disc), what: format!("call of {} panicked: {}", d.fn_name, msg), detail: json!({"fid": d.fid, "attrs": d.attr_text, "panic": msg}) });
            }
        };
        // events
        let mut n_exec = 0u32;
        let mut preds: Vec<(&String, u64, bool)> = vec![];
        let mut checks: Vec<(&String, u64, bool)> = vec![];
        for e in &jo.events {
            match e {
                Event::Exec { fid, .. } if *fid == d.fid => n_exec += 1,
                Event::Pred { fid, key, vdig, verdict, .. } if *fid == d.fid => preds.push((key, *vdig, *verdict)),
                Event::Check { fid, key, vdig, verdict, .. } if *fid == d.fid => checks.push((key, *vdig, *verdict)),
                _ => {}
            }
        }
        if n_exec > 1 {
            return Err(Viol { prop: "C03".into(), sig: sig("C03", "L2", &cfg, "body-ran-twice-in-one-call", ""), what: format!("{} executions in one call", n_exec), detail: json!({"fid": d.fid}) });
        }
        let executed = n_exec == 1;
        // what the body produced if it ran
        let exp_value = if pure_ { vhooks::mix(d.fid, (d.digest)(slot)) } else { value };
        let exp_ok = if pure_ { true } else { ok || !d.is_result };
        if executed {
            self.fns[f].vals.insert(exp_value, (exp_ok, co.rdig));
            *self.fns[f].execs.entry((actor, slot)).or_insert(0) += 1;
        }
        // C01: twin equality for deterministic bodies
        if pure_ {
            self.rep.count("C01", "twin_comparisons", 1);
            if co.value != co.twin || !co.ok {
                let kind = if executed { "executed-call-differs-from-twin" } else { "cached-value-differs-from-twin" };
                let other = self.fns[f].beliefs.iter().flat_map(|b| b.states.iter()).flat_map(|s| s.ents.iter()).any(|e| e.val == co.value);
                let (p, kind) = if other && !executed { ("C02", "served-from-another-tuples-entry") } else { ("C01", kind) };
                return Err(Viol { prop: p.into(), sig: sig(p, "L2", &cfg, kind, ""), what: format!("{}(slot {}) returned value {:x}, undecorated twin returns {:x}", d.fn_name, slot, co.value, co.twin), detail: json!({"fid": d.fid, "attrs": d.attr_text}) });
            }
        }
        let plan = Plan { value: exp_value, ok: exp_ok, fp: co.fp, pred, check };
        let bi = self.fns[f].belief_ix(actor);
        // evidence counters from the pre-state
        self.count_call_evidence(f, bi, slot, now, pure_, ok, pred, check);
        // listing (global/async)
        // (a re-entrant call into the same cache is observed only once its caller has returned)
        let listed = if observe { self.observe_listing(f, if executed { Some(slot) } else { None })? } else { None };
        let stats = if observe && self.fns[f].shared() { stats_of(d.reg_name) } else { None };
        if observe && self.fns[f].shared() && stats.is_none() {
            return Err(Viol { prop: "C15".into(), sig: sig("C15", "L2", &cfg, "stats-not-found-under-name", ""), what: format!("stats_registry::get({:?}) is None after {} was called", d.reg_name, d.fn_name), detail: json!({"fid": d.fid, "attrs": d.attr_text}) });
        }
        let n_pred = preds.len() as u32;
        let n_check = checks.len() as u32;
        let m = &mut self.fns[f];
        let before = m.beliefs[bi].states.clone();
        let mut all_out: Vec<CallOutcome> = vec![];
        let step = m.beliefs[bi].advance(|s| {
            let outs = wrapper::call(&cfg, &wd, s, slot as Key, now, &plan);
            let mut ok_states = vec![];
            let mut allowed = vec![];
            for o in outs {
                let m_ok = o.executed == executed
                    && o.value == co.value
                    && o.n_pred == n_pred
                    && o.n_check == n_check
                    && listed.as_ref().map_or(true, |l| o.state.keys() == *l)
                    && stats.map_or(true, |g| (o.state.hits, o.state.misses) == g);
                if allowed.len() < 6 {
                    allowed.push(format!("executed={} value={:x} pred={} check={} why={:?} store={:?} -> {}", o.executed, o.value & 0xffffff, o.n_pred, o.n_check, o.why, o.decision, model::fmt_state(&o.state)));
                }
                if m_ok {
                    ok_states.push(o.state.clone());
                }
                all_out.push(o);
            }
            (ok_states, allowed)
        });
        match step {
            Step::Ok => {}
            Step::Overflow => {
                self.rep.inconclusive("L2", "belief cap (thread-scope function with random/tie choices)");
                return Err(Viol { prop: "".into(), sig: "".into(), what: "".into(), detail: json!(null) });
            }
            Step::Empty { allowed, .. } => {
                let v = self.explain_call(f, bi, actor, slot, now, &plan, &before, &all_out, executed, &co, n_pred, n_check, &listed, stats, allowed);
                return Err(v);
            }
        }
        // bookkeeping for attribution + semantic checks on the invocations themselves
        let m = &mut self.fns[f];
        if executed {
            let o1 = all_out.iter().find(|o| o.executed);
            let dec = o1.map(|o| o.decision).unwrap_or(StoreDecision::NotRun);
            let why = o1.map(|o| o.why).unwrap_or(Why::MissAbsent);
            if dec == StoreDecision::Stored {
                m.stored_by.insert(slot, actor);
                m.nostore.remove(&slot);
                m.resumed_store.remove(&slot);
                if why == Why::Stale {
                    m.refreshed.insert(slot);
                } else {
                    m.refreshed.remove(&slot);
                }
                // (the taint is sticky: an invalidation may have disturbed the bookkeeping of
                // other keys too, which storing this key again does not heal)
            } else {
                m.nostore.insert(slot, dec);
                if why == Why::MissExpired {
                    m.taint.retain(|(x, _)| *x != slot);
                    m.taint.push((slot, "expiry-purge"));
                }
            }
        }
        // value Ok-ness of a served value
        if !executed {
            if let Some((was_ok, _)) = m.vals.get(&co.value) {
                if *was_ok != co.ok {
                    return Err(Viol { prop: "C01".into(), sig: sig("C01", "L2", &cfg, "served-variant-differs", ""), what: "Ok/Err variant of the served value differs from the stored one".into(), detail: json!({"fid": d.fid}) });
                }
            }
        } else if co.ok != exp_ok {
            return Err(Viol { prop: "C01".into(), sig: sig("C01", "L2", &cfg, "returned-variant-differs", ""), what: "Ok/Err variant returned differs from what the body produced".into(), detail: json!({"fid": d.fid}) });
        }
        // C10: predicate gets this call's key and result
        for (k, vdig, _) in &preds {
            self.rep.count("C10", "predicate_invocations_checked", 1);
            if *vdig != co.rdig {
                return Err(Viol { prop: "C10".into(), sig: sig("C10", "L2", &cfg, "predicate-got-wrong-value", ""), what: "cache_if was consulted with a value other than the call's result".into(), detail: json!({"fid": d.fid}) });
            }
            if let Some(ks) = m.keymap.get(&slot) {
                if ks != *k {
                    return Err(Viol { prop: "C10".into(), sig: sig("C10", "L2", &cfg, "predicate-got-wrong-key", ""), what: format!("cache_if got key {:?}, the call's key is {:?}", k, ks), detail: json!({"fid": d.fid}) });
                }
            }
        }
        // C11: check gets this call's key and the cached value
        for (k, vdig, _) in &checks {
            self.rep.count("C11", "check_invocations_checked", 1);
            if let Some(ks) = m.keymap.get(&slot) {
                if ks != *k {
                    return Err(Viol { prop: "C11".into(), sig: sig("C11", "L2", &cfg, "check-got-wrong-key", ""), what: format!("invalidate_on got key {:?}, the call's key is {:?}", k, ks), detail: json!({"fid": d.fid}) });
                }
            }
            // the value passed must be the cached one: its digest was recorded when it was produced
            let cached_val = before.iter().filter_map(|s| s.get(slot as Key)).map(|e| e.val).next();
            if let Some(cv) = cached_val {
                if let Some((_, dg)) = m.vals.get(&cv) {
                    if dg != vdig {
                        return Err(Viol { prop: "C11".into(), sig: sig("C11", "L2", &cfg, "check-got-wrong-value", ""), what: "invalidate_on was consulted with a value other than the cached one".into(), detail: json!({"fid": d.fid}) });
                    }
                }
            }
        }
        Ok(())
    }

    #[allow(clippy::too_many_arguments)]
    fn do_poll_start(&mut self, f: usize, slot: u32, actor: usize, pure_: bool, value: u64, ok: bool, len: Option<usize>, pred: bool, check: bool) -> Result<(), Viol> {
        let now = vmon::clock::now();
        let d = self.fns[f].d;
        let cfg = self.fns[f].cfg;
        let wd = self.fns[f].wd;
        let arm = if pure_ { None } else { Some(ExecPlan { value: Some(value), ok, len }) };
        let jo = self.actors[actor].run(Job { kind: JobKind::Start(d.fut.unwrap()), slot, arm, pred: Some(pred), check: Some(check), nested: None });
        self.proc_.used.insert(d.fid);
        self.rep.count("C20", "calls_polled_by_hand", 1);
        self.rep.count("L2", "polls", 1);
        match &jo.out {
            Ok(Some(_)) => {
                // served from the cache before reaching an await point: an ordinary call
                self.rep.count("C20", "polled_calls_completed_without_suspension", 1);
                return self.finish_call(f, slot, actor, pure_, value, ok, pred, check, jo, now, true);
            }
            Err(msg) => {
                return Err(Viol { prop: "C16".into(), sig: sig("C16", "L2", &cfg, "panic-in-polled-call", ""), what: format!("first poll of {} panicked: {}", d.fn_name, msg), detail: json!({"fid": d.fid, "panic": msg}) });
            }
            Ok(None) => {}
        }
        self.rep.count("C20", "suspensions_observed", 1);
        if !jo.held.is_empty() {
            return Err(Viol { prop: "C20".into(), sig: sig("C20", "L2", &cfg, "lock-held-at-await", ""), what: format!("{} returned Pending at its first await point while holding locks acquired at {:?}", d.fn_name, jo.held), detail: json!({"fid": d.fid, "attrs": d.attr_text, "held": jo.held}) });
        }
        let n_exec = jo.events.iter().filter(|e| matches!(e, Event::Exec { fid, .. } if *fid == d.fid)).count();
        let n_check = jo.events.iter().filter(|e| matches!(e, Event::Check { fid, .. } if *fid == d.fid)).count() as u32;
        if n_exec != 1 {
            return Err(Viol { prop: "C20".into(), sig: sig("C20", "L2", &cfg, "pending-without-running-body", ""), what: format!("Pending although the body ran {} times", n_exec), detail: json!({"fid": d.fid}) });
        }
        *self.fns[f].execs.entry((actor, slot)).or_insert(0) += 1;
        let exp_value = if pure_ { vhooks::mix(d.fid, (d.digest)(slot)) } else { value };
        let exp_ok = if pure_ { true } else { ok || !d.is_result };
        let plan = Plan { value: exp_value, ok: exp_ok, fp: 0, pred, check };
        let listed = self.observe_listing(f, None)?;
        let stats = stats_of(d.reg_name);
        let mut stale = false;
        let m = &mut self.fns[f];
        let before = m.beliefs[0].states.clone();
        let step = m.beliefs[0].advance(|s| {
            let outs = wrapper::call(&cfg, &wd, s, slot as Key, now, &plan);
            let mut keep = vec![];
            let mut allowed = vec![];
            for o in outs {
                if allowed.len() < 6 {
                    allowed.push(format!("executed={} why={:?} after-lookup={}", o.executed, o.why, model::fmt_state(&o.mid)));
                }
                if o.executed && o.n_check == n_check && listed.as_ref().map_or(true, |l| o.mid.keys() == *l) && stats.map_or(true, |g| (o.mid.hits, o.mid.misses) == g) {
                    if o.why == Why::Stale {
                        stale = true;
                    }
                    keep.push(o.mid.clone());
                }
            }
            (keep, allowed)
        });
        if let Step::Empty { allowed, .. } = step {
            return Err(Viol { prop: "C20".into(), sig: sig("C20", "L2", &cfg, "state-at-suspension-unexplained", ""), what: format!("{} slot {} suspended in its body: cache lists {:?}, stats {:?}; the model (a call that has only performed its lookup) allows {:?}", d.fn_name, slot, listed, stats, allowed), detail: json!({"fid": d.fid, "attrs": d.attr_text, "pre": before.first().map(model::fmt_state)}) });
        }
        self.rep.distinct("C20", hash64(&[d.fid as u64, 0, 0, before.first().map_or(0, |s| s.ents.len() as u64)]));
        self.susp.insert(actor, Susp { f, slot, value: exp_value, ok: exp_ok, pred, gates_passed: 0, stale_refresh: stale, interleaved_ops: 0 });
        Ok(())
    }

    fn do_poll_step(&mut self, actor: usize) -> Result<(), Viol> {
        let s = match self.susp.get(&actor) {
            None => return Ok(()),
            Some(s) => s.clone(),
        };
        let now = vmon::clock::now();
        let d = self.fns[s.f].d;
        let cfg = self.fns[s.f].cfg;
        let wd = self.fns[s.f].wd;
        let jo = self.actors[actor].run(Job { kind: JobKind::Step, slot: s.slot, arm: None, pred: Some(s.pred), check: None, nested: None });
        self.rep.count("L2", "polls", 1);
        match jo.out {
            Err(msg) => {
                self.susp.remove(&actor);
                Err(Viol { prop: "C16".into(), sig: sig("C16", "L2", &cfg, "panic-in-polled-call", ""), what: format!("poll of {} panicked: {}", d.fn_name, msg), detail: json!({"fid": d.fid, "panic": msg}) })
            }
            Ok(None) => {
                // suspended at the next await point
                self.susp.get_mut(&actor).unwrap().gates_passed += 1;
                self.rep.count("C20", "suspensions_observed", 1);
                self.rep.distinct("C20", hash64(&[d.fid as u64, 1, s.gates_passed as u64 + 1, s.interleaved_ops.min(3) as u64]));
                if !jo.held.is_empty() {
                    return Err(Viol { prop: "C20".into(), sig: sig("C20", "L2", &cfg, "lock-held-at-await", ""), what: format!("{} returned Pending at await point {} while holding locks acquired at {:?}", d.fn_name, s.gates_passed + 1, jo.held), detail: json!({"fid": d.fid, "held": jo.held}) });
                }
                self.filter_by_listing(s.f, None, "suspension")?;
                self.check_stats(s.f)
            }
            Ok(Some(co)) => {
                self.susp.remove(&actor);
                self.rep.count("C20", "suspended_calls_resumed_to_completion", 1);
                if s.interleaved_ops > 0 {
                    self.rep.count("C20", "resumed_after_interleaved_operations", 1);
                }
                self.rep.distinct("C20", hash64(&[d.fid as u64, 2, s.gates_passed as u64, s.interleaved_ops.min(3) as u64]));
                let n_pred = jo.events.iter().filter(|e| matches!(e, Event::Pred { fid, .. } if *fid == d.fid)).count() as u32;
                let n_exec = jo.events.iter().filter(|e| matches!(e, Event::Exec { fid, .. } if *fid == d.fid)).count();
                if n_exec != 0 {
                    return Err(Viol { prop: "C20".into(), sig: sig("C20", "L2", &cfg, "body-restarted-on-resume", ""), what: "the body started again when the suspended call was resumed".into(), detail: json!({"fid": d.fid}) });
                }
                if co.value != s.value || (d.is_result && co.ok != s.ok) {
                    return Err(Viol { prop: "C20".into(), sig: sig("C20", "L2", &cfg, "resumed-call-returned-other-value", ""), what: format!("resumed call returned {:x}, its body produced {:x}", co.value, s.value), detail: json!({"fid": d.fid}) });
                }
                // store decision (same rules as for an uninterrupted call)
                let (exp_pred, stored) = if wd.has_cache_if { (1, s.pred && !(wd.is_result && !wd.is_async && !s.ok)) } else { (0, !(wd.is_result && !s.ok)) };
                if n_pred != exp_pred {
                    return Err(Viol { prop: "C10".into(), sig: sig("C10", "L2", &cfg, "predicate-consulted-wrong-number-of-times", ""), what: format!("cache_if consulted {} times on completion of a resumed call, expected {}", n_pred, exp_pred), detail: json!({"fid": d.fid}) });
                }
                let listed = self.observe_listing(s.f, Some(s.slot))?;
                let stats = stats_of(d.reg_name);
                let m = &mut self.fns[s.f];
                m.vals.insert(s.value, (s.ok, co.rdig));
                let before = m.beliefs[0].states.clone();
                let step = m.beliefs[0].advance(|st| {
                    let mut outs: Vec<State> = if stored { model::store(&cfg, st, s.slot as Key, s.value, co.fp, now) } else { vec![st.clone()] };
                    if !stored && s.stale_refresh {
                        let mut t = st.clone();
                        t.remove_keys(&std::iter::once(s.slot as Key).collect());
                        outs.push(t);
                    }
                    let allowed: Vec<String> = outs.iter().take(5).map(model::fmt_state).collect();
                    let keep: Vec<State> = outs.into_iter().filter(|o| listed.as_ref().map_or(true, |l| o.keys() == *l) && stats.map_or(true, |g| (o.hits, o.misses) == g)).collect();
                    (keep, allowed)
                });
                if let Step::Empty { allowed, .. } = step {
                    return Err(Viol { prop: "C20".into(), sig: sig("C20", "L2", &cfg, "resumed-call-did-not-store-normally", ""), what: format!("{} slot {} resumed after {} await points and {} interleaved operations: cache lists {:?}, stats {:?}; a normal store allows {:?}", d.fn_name, s.slot, s.gates_passed + 1, s.interleaved_ops, listed, stats, allowed), detail: json!({"fid": d.fid, "attrs": d.attr_text, "pre": before.first().map(model::fmt_state)}) });
                }
                let m = &mut self.fns[s.f];
                if stored {
                    m.stored_by.insert(s.slot, actor);
                    m.nostore.remove(&s.slot);
                    m.resumed_store.insert(s.slot);
                    if s.stale_refresh {
                        m.refreshed.insert(s.slot);
                    } else {
                        m.refreshed.remove(&s.slot);
                    }
                } else {
                    m.nostore.insert(s.slot, if wd.has_cache_if && !s.pred { StoreDecision::SkippedPredicate } else { StoreDecision::SkippedErr });
                }
                Ok(())
            }
        }
    }

    fn do_poll_drop(&mut self, actor: usize) -> Result<(), Viol> {
        let s = match self.susp.remove(&actor) {
            None => return Ok(()),
            Some(s) => s,
        };
        let d = self.fns[s.f].d;
        let cfg = self.fns[s.f].cfg;
        let jo = self.actors[actor].run(Job { kind: JobKind::Drop, slot: s.slot, arm: None, pred: None, check: None, nested: None });
        self.rep.count("C20", "suspended_calls_dropped", 1);
        self.rep.distinct("C20", hash64(&[d.fid as u64, 3, s.gates_passed as u64, s.interleaved_ops.min(3) as u64]));
        if !jo.held.is_empty() {
            return Err(Viol { prop: "C20".into(), sig: sig("C20", "L2", &cfg, "lock-held-after-drop", ""), what: format!("locks acquired at {:?} are still held after the suspended call was dropped", jo.held), detail: json!({"fid": d.fid}) });
        }
        // as if the call had only performed its lookup: nothing in the cache or the statistics changes
        self.filter_by_listing(s.f, None, "drop")?;
        self.check_stats(s.f)
    }

    /// A call whose body (if it runs) makes a re-entrant decorated call and/or panics.  Modelled as
    /// what the statements imply for the three steps in the order in which they really happen:
    /// lookup of the outer call; the complete inner call; store of the outer result (none if the
    /// body panicked).  Nothing may panic or block on the way (C16, C17).
    fn do_nested(&mut self, outer: &Op, inner: Option<&Op>, body_panics: bool) -> Result<(), Viol> {
        let (f, slot, actor, pure_, value, ok, len, pred, check) = match outer {
            Op::Call { f, slot, actor, pure_, value, ok, len, pred, check } => (*f, *slot, *actor, *pure_, *value, *ok, *len, *pred, *check),
            _ => return Ok(()),
        };
        let inner_c = match inner {
            Some(Op::Call { f, slot, pure_, value, ok, len, pred, check, .. }) => Some((*f, *slot, *pure_, *value, *ok, *len, *pred, *check)),
            _ => None,
        };
        let now = vmon::clock::now();
        let d = self.fns[f].d;
        let cfg = self.fns[f].cfg;
        let wd = self.fns[f].wd;
        let np = vhooks::NestedPlan {
            at_fid: d.fid,
            call: inner_c.map(|(fi, si, ..)| (self.fns[fi].d.call, si)),
            plan: inner_c.and_then(|(_, _, ip, iv, iok, ilen, ..)| if ip { None } else { Some(ExecPlan { value: Some(iv), ok: iok, len: ilen }) }),
            pred: inner_c.map(|c| c.6),
            check: inner_c.map(|c| c.7),
            panic: body_panics,
        };
        let arm = if pure_ { None } else { Some(ExecPlan { value: Some(value), ok, len }) };
        let mut jo = self.actors[actor].run(Job { kind: JobKind::Call(d.call), slot, arm, pred: Some(pred), check: Some(check), nested: Some(np) });
        for s in self.susp.values_mut() {
            s.interleaved_ops += 1;
        }
        let no = match jo.nested.take() {
            // the body did not run: an ordinary call served from the cache
            None => return self.finish_call(f, slot, actor, pure_, value, ok, pred, check, jo, now, true),
            Some(no) => no,
        };
        self.rep.count("L2", "calls", 1);
        self.rep.count("C16", "calls_under_catch_unwind", 1);
        self.rep.count("C16", if body_panics { "calls_whose_body_panics" } else { "calls_with_reentrant_body" }, 1);
        self.rep.count("C17", if body_panics { "calls_whose_body_panics" } else { "calls_with_reentrant_body" }, 1);
        if inner_c.map_or(false, |c| c.0 == f) {
            self.rep.count("C17", "reentrant_calls_into_the_same_cache", 1);
        }
        self.proc_.used.insert(d.fid);
        let blocked = |msg: &str| msg.starts_with(vmon::lockmon::SELF_DEADLOCK);
        let inner_name = inner_c.map_or("-", |c| self.fns[c.0].d.fn_name);
        // the inner call itself
        let inner_co = match no.out {
            None => None,
            Some(Ok(co)) => Some(co),
            Some(Err(msg)) => {
                let same = inner_c.map_or(false, |c| c.0 == f);
                if blocked(&msg) {
                    return Err(Viol { prop: "C17".into(), sig: sig("C17", "L2", &cfg, "reentrant-call-blocks-forever", if same { "same-cache" } else { "other-cache" }), what: format!("{} called from inside the body of {} can never return: {}", inner_name, d.fn_name, msg), detail: json!({"fid": d.fid, "attrs": d.attr_text, "inner": inner_name, "panic": msg}) });
                }
                return Err(Viol { prop: "C16".into(), sig: sig("C16", "L2", &cfg, "panic-in-reentrant-call", if same { "same-cache" } else { "other-cache" }), what: format!("{} called from inside the body of {} panicked: {}", inner_name, d.fn_name, msg), detail: json!({"fid": d.fid, "attrs": d.attr_text, "inner": inner_name, "panic": msg}) });
            }
        };
        // the outer call
        let outer_co = match &jo.out {
            Ok(Some(co)) => {
                if body_panics {
                    return Err(Viol { prop: "C01".into(), sig: sig("C01", "L2", &cfg, "call-returned-although-its-body-panicked", ""), what: format!("{} returned a value although its body panicked", d.fn_name), detail: json!({"fid": d.fid}) });
                }
                Some(*co)
            }
            Ok(None) => return Err(Viol { prop: "C20".into(), sig: sig("C20", "L2", &cfg, "complete-call-did-not-complete", ""), what: "a call with every await point open returned Pending".into(), detail: json!({"fid": d.fid}) }),
            Err(msg) => {
                if blocked(msg) {
                    return Err(Viol { prop: "C17".into(), sig: sig("C17", "L2", &cfg, "call-blocks-forever-after-reentrant-body", ""), what: format!("{} can never return after its body called {}: {}", d.fn_name, inner_name, msg), detail: json!({"fid": d.fid, "attrs": d.attr_text, "panic": msg}) });
                }
                if !(body_panics && msg.starts_with(vhooks::SCRIPTED_BODY_PANIC)) {
                    let disc = format!("limit={},mem={}", d.limit.is_some(), d.max_memory.is_some());
                    return Err(Viol { prop: "C16".into(), sig: sig("C16", "L2", &cfg, "panic-in-decorated-call", &disc), what: format!("call of {} (whose body called {}) panicked: {}", d.fn_name, inner_name, msg), detail: json!({"fid": d.fid, "attrs": d.attr_text, "panic": msg}) });
                }
                None
            }
        };
        if !jo.held.is_empty() {
            return Err(Viol { prop: "C17".into(), sig: sig("C17", "L2", &cfg, "lock-still-held-after-call", if body_panics { "body-panicked" } else { "" }), what: format!("locks acquired at {:?} are still held by the calling thread after {} returned{}", jo.held, d.fn_name, if body_panics { " (its body panicked)" } else { "" }), detail: json!({"fid": d.fid, "held": jo.held}) });
        }
        // --- step 1: the outer call's lookup (the body ran)
        let n_check = jo.events.iter().filter(|e| matches!(e, Event::Check { fid, .. } if *fid == d.fid)).count() as u32;
        let n_pred = jo.events.iter().filter(|e| matches!(e, Event::Pred { fid, .. } if *fid == d.fid)).count() as u32;
        let exp_value = if pure_ { vhooks::mix(d.fid, (d.digest)(slot)) } else { value };
        let exp_ok = if pure_ { true } else { ok || !d.is_result };
        let bi = self.fns[f].belief_ix(actor);
        let plan = Plan { value: exp_value, ok: exp_ok, fp: 0, pred, check };
        let mut stale = false;
        let before = self.fns[f].beliefs[bi].states.clone();
        let step = self.fns[f].beliefs[bi].advance(|s| {
            let mut keep = vec![];
            for o in wrapper::call(&cfg, &wd, s, slot as Key, now, &plan) {
                if o.executed && o.n_check == n_check {
                    if o.why == Why::Stale {
                        stale = true;
                    }
                    keep.push(o.mid.clone());
                }
            }
            (keep, vec![])
        });
        if let Step::Empty { .. } = step {
            // the body should not have run (or the check was consulted differently): the ordinary
            // explanation of a complete call says which statement that contradicts
            self.fns[f].beliefs[bi].states = before;
            if jo.out.as_ref().map_or(false, |o| o.is_some()) {
                return self.finish_call(f, slot, actor, pure_, value, ok, pred, check, jo, now, true);
            }
            return Err(Viol { prop: "C03".into(), sig: sig("C03", "L2", &cfg, "recomputed-although-cached", "body-panicked"), what: format!("slot {} recomputed although its result is cached (or invalidate_on consulted {} times)", slot, n_check), detail: json!({"fid": d.fid}) });
        }
        if let Step::Overflow = step {
            self.rep.inconclusive("L2", "belief cap (thread-scope function with random/tie choices)");
            return Err(Viol { prop: "".into(), sig: "".into(), what: "".into(), detail: json!(null) });
        }
        if !body_panics {
            // (an execution that panicked produced no result: the next call has to run the body again)
            *self.fns[f].execs.entry((actor, slot)).or_insert(0) += 1;
        }
        // --- step 2: the complete inner call
        if let (Some((fi, si, ip, iv, iok, _ilen, ipred, icheck)), Some(co)) = (inner_c, inner_co) {
            let ji = JobOut { out: Ok(Some(co)), events: no.events, held: vec![], nested: None };
            self.finish_call(fi, si, actor, ip, iv, iok, ipred, icheck, ji, now, fi != f)?;
        }
        // --- step 3: the outer result is stored (or the body panicked: nothing is)
        let stored = match outer_co {
            None => false,
            Some(_) => {
                if wd.has_cache_if {
                    pred && !(wd.is_result && !wd.is_async && !exp_ok)
                } else {
                    !(wd.is_result && !exp_ok)
                }
            }
        };
        if let Some(co) = &outer_co {
            if co.value != exp_value || (d.is_result && co.ok != exp_ok) {
                return Err(Viol { prop: "C01".into(), sig: sig("C01", "L2", &cfg, "executed-call-returned-other-value", "reentrant-body"), what: format!("{} returned {:x}, its body produced {:x}", d.fn_name, co.value, exp_value), detail: json!({"fid": d.fid}) });
            }
            if pure_ && co.value != co.twin {
                return Err(Viol { prop: "C01".into(), sig: sig("C01", "L2", &cfg, "executed-call-differs-from-twin", "reentrant-body"), what: format!("{} returned {:x}, undecorated twin returns {:x}", d.fn_name, co.value, co.twin), detail: json!({"fid": d.fid}) });
            }
            let exp_pred = if wd.has_cache_if { 1 } else { 0 };
            if n_pred != exp_pred {
                return Err(Viol { prop: "C10".into(), sig: sig("C10", "L2", &cfg, "predicate-consulted-wrong-number-of-times", "reentrant-body"), what: format!("cache_if consulted {} times, expected {}", n_pred, exp_pred), detail: json!({"fid": d.fid}) });
            }
            self.fns[f].vals.insert(exp_value, (exp_ok, co.rdig));
        }
        let fp = outer_co.map_or(0, |c| c.fp);
        let listed = self.observe_listing(f, if stored { Some(slot) } else { None })?;
        let stats = if self.fns[f].shared() { stats_of(d.reg_name) } else { None };
        let m = &mut self.fns[f];
        let before = m.beliefs[bi].states.clone();
        let step = m.beliefs[bi].advance(|st| {
            let mut outs: Vec<State> = if stored { model::store(&cfg, st, slot as Key, exp_value, fp, now) } else { vec![st.clone()] };
            if !stored && stale {
                let mut t = st.clone();
                t.remove_keys(&std::iter::once(slot as Key).collect());
                outs.push(t);
            }
            let allowed: Vec<String> = outs.iter().take(5).map(model::fmt_state).collect();
            let keep: Vec<State> = outs.into_iter().filter(|o| listed.as_ref().map_or(true, |l| o.keys() == *l) && stats.map_or(true, |g| (o.hits, o.misses) == g)).collect();
            (keep, allowed)
        });
        match step {
            Step::Ok => {}
            Step::Overflow => {
                self.rep.inconclusive("L2", "belief cap (thread-scope function with random/tie choices)");
                return Err(Viol { prop: "".into(), sig: "".into(), what: "".into(), detail: json!(null) });
            }
            Step::Empty { allowed, .. } => {
                let pre = &before[0];
                let ctx = if body_panics { "body-panicked" } else { "reentrant-body" };
                let detail = json!({"fid": d.fid, "attrs": d.attr_text, "cfg": cfg_json(&cfg), "slot": slot, "inner": inner_name, "pre": model::fmt_state(pre), "observed": {"listing_slots": listed, "stats": stats.map(|s| vec![s.0, s.1])}, "allowed": allowed});
                let mk = |p: &str, kind: &str, what: String| Viol { prop: p.into(), sig: sig(p, "L2", &cfg, kind, ctx), what, detail: detail.clone() };
                if let Some(l) = &listed {
                    let content_ok = before.iter().any(|st| {
                        let outs: Vec<State> = if stored { model::store(&cfg, st, slot as Key, exp_value, fp, now) } else { vec![st.clone()] };
                        outs.iter().any(|o| o.keys() == *l) || (!stored && stale && { let mut t = st.clone(); t.remove_keys(&std::iter::once(slot as Key).collect()); t.keys() == *l })
                    });
                    if !content_ok {
                        let has = l.contains(&slot);
                        if !stored && has && pre.get(slot as Key).is_none() {
                            if body_panics {
                                return Err(mk("C01", "entry-stored-for-a-call-whose-body-panicked", format!("slot {} is cached although the body of {} panicked", slot, d.fn_name)));
                            }
                            if d.has_cache_if && !pred {
                                return Err(mk("C10", "rejected-result-stored", format!("slot {}: cache_if returned false but the key is cached afterwards", slot)));
                            }
                            return Err(mk("C09", "err-result-stored", format!("slot {}: Err outcome but the key is cached afterwards", slot)));
                        }
                        if stored && l.iter().all(|k| *k == slot || pre.get(*k as Key).is_some()) {
                            let post: BTreeMap<Key, (u64, usize)> = l.iter().map(|k| (*k as Key, (if *k == slot { exp_value } else { pre.get(*k as Key).map_or(0, |e| e.val) }, if *k == slot { fp } else { pre.get(*k as Key).map_or(0, |e| e.fp) }))).collect();
                            let (p, sg, what) = classify_store("L2", &cfg, pre, slot as Key, exp_value, fp, now, &post);
                            return Err(Viol { prop: p, sig: format!("{},{}", sg, ctx), what: format!("{} (store of a call whose body called {})", what, inner_name), detail });
                        }
                        return Err(mk("C19", "cache-content-after-call-unexplained", format!("after {} (whose body called {}) returned the cache lists {:?}; the configured model allows {:?}", d.fn_name, inner_name, l, allowed)));
                    }
                }
                if stats.is_some() {
                    return Err(mk("C15", "hit-miss-counters", format!("stats {:?} differ from the model after the call", stats)));
                }
                return Err(mk("C19", "behaviour-differs-from-configured-model", "observation not explained by the model configured from the attributes".into()));
            }
        }
        let m = &mut self.fns[f];
        if stored {
            m.stored_by.insert(slot, actor);
            m.nostore.remove(&slot);
            m.resumed_store.remove(&slot);
            if stale {
                m.refreshed.insert(slot);
            } else {
                m.refreshed.remove(&slot);
            }
        } else if !body_panics {
            m.nostore.insert(slot, if wd.has_cache_if && !pred { StoreDecision::SkippedPredicate } else { StoreDecision::SkippedErr });
        }
        Ok(())
    }

    fn count_call_evidence(&mut self, f: usize, bi: usize, slot: u32, now: i64, pure_: bool, ok: bool, pred: bool, check: bool) {
        let m = &self.fns[f];
        let d = m.d;
        let pre = match m.beliefs[bi].single() {
            Some(s) => s.clone(),
            None => return,
        };
        let rep = &mut *self.rep;
        let has = pre.get(slot as Key).is_some();
        let fidh = d.fid as u64;
        rep.distinct("C01", hash64(&[fidh, 1, slot as u64, has as u64, pre.ents.len() as u64]));
        rep.distinct("C19", hash64(&[fidh, has as u64, pre.ents.len() as u64, (now / SEC) as u64 % 4]));
        rep.distinct("C16", hash64(&[fidh, has as u64, pre.ents.len() as u64]));
        if d.limit.is_none() && d.ttl.is_none() && d.max_memory.is_none() && !d.has_cache_if && !d.has_invalidate_on && !d.is_result {
            rep.count("C03", if has { "repeat_calls_on_unbounded_caches" } else { "first_calls_on_unbounded_caches" }, 1);
            rep.distinct("C03", hash64(&[fidh, slot as u64, has as u64, bi as u64]));
        }
        if d.is_result && !d.has_cache_if {
            rep.count("C09", if ok || pure_ { "ok_outcomes_scripted" } else { "err_outcomes_scripted" }, 1);
            let prev = m.nostore.get(&slot).map(|x| *x as u64 + 1).unwrap_or(0);
            rep.distinct("C09", hash64(&[fidh, slot as u64, has as u64, (ok || pure_) as u64, prev]));
        }
        if d.has_cache_if {
            rep.count("C10", if pred { "accepting_verdicts_scripted" } else { "rejecting_verdicts_scripted" }, 1);
            rep.distinct("C10", hash64(&[fidh, slot as u64, has as u64, pred as u64, (ok || pure_) as u64]));
        }
        if d.has_invalidate_on && has {
            rep.count("C11", if check { "stale_verdicts_on_cached_entries" } else { "fresh_verdicts_on_cached_entries" }, 1);
            rep.distinct("C11", hash64(&[fidh, slot as u64, check as u64, pre.ents.len() as u64]));
        }
        if d.scope_thread || self.actors.len() > 1 {
            rep.count("C14", if d.scope_thread { "thread_scope_calls_multi_actor" } else { "shared_scope_calls_multi_actor" }, 1);
            let by = m.stored_by.get(&slot).copied().unwrap_or(99) as u64;
            rep.distinct("C14", hash64(&[fidh, slot as u64, bi as u64, by, has as u64]));
        }
        if let (Some(t), Some(e)) = (d.ttl, pre.get(slot as Key)) {
            let age = now - e.born;
            if (age - ttl_ns(t)).abs() <= SEC {
                rep.count("C06", "l2_lookups_within_1s_of_boundary", 1);
            }
            rep.distinct("C06", hash64(&[fidh, (age / (SEC / 4)) as u64]));
        }
    }

    #[allow(clippy::too_many_arguments)]
    fn explain_call(&mut self, f: usize, bi: usize, actor: usize, slot: u32, now: i64, plan: &Plan, before: &[State], outs: &[CallOutcome], executed: bool, co: &CallOut, n_pred: u32, n_check: u32, listed: &Option<BTreeSet<u32>>, stats: Option<(u64, u64)>, allowed: Vec<String>) -> Viol {
        let m = &self.fns[f];
        let d = m.d;
        let cfg = m.cfg;
        let pre = &before[0];
        let detail = json!({"fid": d.fid, "attrs": d.attr_text, "cfg": cfg_json(&cfg), "slot": slot, "actor": actor, "pre": model::fmt_state(pre), "belief_size": before.len(),
            "observed": {"executed": executed, "value": format!("{:x}", co.value), "ok": co.ok, "pred_calls": n_pred, "check_calls": n_check, "listing_slots": listed, "stats": stats.map(|s| vec![s.0, s.1])},
            "allowed": allowed, "now_ns": now});
        let mk = |p: &str, kind: &str, what: String| Viol { prop: p.into(), sig: sig(p, "L2", &cfg, kind, ""), what, detail: detail.clone() };
        let must_exec = outs.iter().all(|o| o.executed);
        let must_not_exec = outs.iter().all(|o| !o.executed);
        let entry = pre.get(slot as Key);
        // an entry that was stored by a resumed call / by an invalidate_on refresh and then does not
        // behave like a normally stored one (not served, wrong age, wrong value)
        if entry.is_some() && ((executed && must_not_exec) || (!executed && !outs.iter().any(|o| !o.executed && o.value == co.value))) {
            if m.resumed_store.contains(&slot) {
                return mk("C20", "entry-stored-by-a-resumed-call-not-served-normally", format!("slot {}: the entry was stored by a call that had been suspended and resumed; it is {} now although a normally stored entry would be {}", slot, if executed { "recomputed" } else { "served with another value" }, if executed { "served" } else { "served with the stored value" }));
            }
            if m.refreshed.contains(&slot) && d.has_invalidate_on {
                return mk("C11", "refreshed-entry-not-served-normally", format!("slot {}: the entry is the result of an invalidate_on refresh; the following call {} although the check accepts it and a normally stored entry would be served", slot, if executed { "ran the body again" } else { "was served another value" }));
            }
        }
        // 1. did the body run when it should not / not run when it should?
        if executed && must_not_exec {
            // a cached, live, non-stale entry exists but the body ran again
            if let Some(other_actor) = m.stored_by.get(&slot) {
                if *other_actor != actor && m.shared() {
                    return mk("C14", "shared-entry-not-visible-to-other-thread", format!("thread {} recomputed slot {} although thread {} had stored it in a {} cache", actor, slot, other_actor, cfg.flavour.name()));
                }
            }
            if d.ttl.is_some() {
                return mk("C06", "live-entry-not-served", format!("slot {} recomputed although its entry is younger than ttl", slot));
            }
            if d.has_invalidate_on {
                return mk("C11", "fresh-entry-recomputed", format!("slot {} recomputed although invalidate_on accepted the cached value", slot));
            }
            return mk("C03", "recomputed-although-cached", format!("slot {} recomputed although its result is cached", slot));
        }
        if !executed && must_exec {
            let why = outs.first().map(|o| o.why).unwrap_or(Why::MissAbsent);
            match why {
                Why::MissExpired => return mk("C06", "expired-entry-served", format!("slot {} served from an entry of age >= ttl", slot)),
                Why::Stale => return mk("C11", "stale-entry-served", format!("slot {} served although invalidate_on judged the entry stale", slot)),
                _ => {}
            }
            // nothing is cached for this tuple in this scope
            if !m.shared() {
                // would another thread's cache explain it?
                for (j, b) in m.beliefs.iter().enumerate() {
                    if j != bi && b.states.iter().any(|s| s.get(slot as Key).map_or(false, |e| e.val == co.value)) {
                        return mk("C14", "thread-scope-served-other-threads-entry", format!("thread {} was served a value stored by thread {} under scope=\"thread\"", actor, j));
                    }
                }
            }
            if pre.ents.iter().any(|e| e.key != slot as Key && e.val == co.value) {
                return mk("C02", "served-from-another-tuples-entry", format!("slot {} was served the value cached for another argument tuple", slot));
            }
            match m.nostore.get(&slot) {
                Some(StoreDecision::SkippedErr) => return mk("C09", "err-result-was-cached", format!("slot {} served from cache although its last outcome was Err", slot)),
                Some(StoreDecision::SkippedPredicate) => return mk("C10", "rejected-result-was-cached", format!("slot {} served from cache although cache_if rejected its last result", slot)),
                _ => {}
            }
            return mk("C01", "served-without-entry", format!("slot {} served value {:x} but the model holds no entry for it", slot, co.value));
        }
        // 2. value
        let vals: BTreeSet<u64> = outs.iter().filter(|o| o.executed == executed).map(|o| o.value).collect();
        if !vals.contains(&co.value) {
            if !executed && pre.ents.iter().any(|e| e.key != slot as Key && e.val == co.value) {
                return mk("C02", "served-from-another-tuples-entry", format!("slot {} was served the value cached for another argument tuple", slot));
            }
            if executed && entry.map_or(false, |e| e.val == co.value) && outs.iter().any(|o| o.why == Why::Stale) {
                return mk("C11", "stale-value-returned-although-the-body-ran", format!("slot {}: invalidate_on judged the cached value stale and the body ran, yet the call returned the stale value {:x}", slot, co.value));
            }
            let kind = if executed { "executed-call-returned-other-value" } else if entry.is_some() { "stale-or-wrong-value-served" } else { "value-from-nowhere" };
            return mk("C01", kind, format!("slot {} returned {:x}, expected one of {:?}", slot, co.value, vals.iter().map(|v| format!("{:x}", v)).collect::<Vec<_>>()));
        }
        // 3. predicate / check invocation counts
        let cand: Vec<&CallOutcome> = outs.iter().filter(|o| o.executed == executed && o.value == co.value).collect();
        if !cand.iter().any(|o| o.n_pred == n_pred) {
            return mk("C10", "predicate-consulted-wrong-number-of-times", format!("cache_if consulted {} times, expected {}", n_pred, cand[0].n_pred));
        }
        if !cand.iter().any(|o| o.n_check == n_check) {
            if n_check > cand[0].n_check && entry.is_none() && !m.shared() && (d.limit.is_some() || d.max_memory.is_some()) {
                // a per-thread cache cannot be listed: that it still holds an entry the model has
                // evicted shows when invalidate_on is consulted about it
                let p = match d.policy {
                    "fifo" | "lru" => "C07",
                    "lfu" | "arc" | "tlru" => "C08",
                    _ => "C04",
                };
                return mk(p, "entry-the-policy-should-have-evicted-is-still-cached", format!("slot {}: invalidate_on was consulted about an entry that the {} policy should have evicted earlier in this history", slot, d.policy));
            }
            return mk("C11", "check-consulted-wrong-number-of-times", format!("invalidate_on consulted {} times, expected {}", n_check, cand[0].n_check));
        }
        // 4. content of the cache after the call
        if let Some(l) = listed {
            let cand: Vec<&CallOutcome> = cand.into_iter().filter(|o| o.n_pred == n_pred && o.n_check == n_check).collect();
            if !cand.iter().any(|o| o.state.keys() == *l) {
                let o = cand[0];
                let has = l.contains(&slot);
                if executed {
                    match o.decision {
                        StoreDecision::SkippedErr if has => return mk("C09", "err-result-stored", format!("slot {}: Err outcome but the key is cached afterwards", slot)),
                        StoreDecision::SkippedPredicate if has => return mk("C10", "rejected-result-stored", format!("slot {}: cache_if returned false but the key is cached afterwards", slot)),
                        StoreDecision::Stored => {
                            let mayevict = cand.iter().any(|o| !o.state.keys().contains(&(slot as Key)));
                            if !has && !mayevict {
                                if d.has_cache_if {
                                    return mk("C10", "accepted-result-not-stored", format!("slot {}: cache_if accepted the result but it is not cached", slot));
                                }
                                if d.is_result {
                                    return mk("C09", "ok-result-not-stored", format!("slot {}: Ok outcome but it is not cached", slot));
                                }
                                if o.why == Why::Stale {
                                    return mk("C11", "refreshed-value-not-stored", format!("slot {}: refreshed result is not cached", slot));
                                }
                            }
                            // eviction-level discrepancy: same attribution as at core level
                            let post: BTreeMap<Key, (u64, usize)> = l.iter().map(|k| (*k as Key, (if *k == slot { plan.value } else { o.mid.get(*k as Key).map_or(0, |e| e.val) }, if *k == slot { plan.fp } else { o.mid.get(*k as Key).map_or(0, |e| e.fp) }))).collect();
                            if l.iter().all(|k| *k == slot || o.mid.get(*k as Key).is_some()) {
                                let (p, sg, what) = classify_store("L2", &cfg, &o.mid, slot as Key, plan.value, plan.fp, now, &post);
                                if o.why == Why::MissExpired && matches!(p.as_str(), "C04" | "C05") && !sg.contains("exceeded") {
                                    // the call purged an expired entry and refilled it; entries younger
                                    // than ttl disappeared although nothing had to be evicted
                                    let mut parts: Vec<String> = sg.split('|').map(|x| x.to_string()).collect();
                                    parts[0] = "C06".into();
                                    parts[4] = format!("{}-on-refill-of-expired-key", parts[4]);
                                    return Viol { prop: "C06".into(), sig: parts.join("|"), what: format!("{} (the call had just purged its own expired entry)", what), detail };
                                }
                                return Viol { prop: p, sig: sg, what, detail };
                            }
                        }
                        _ => {}
                    }
                } else if o.why == Why::Served && !l.contains(&slot) {
                    return mk("C04", "lookup-removed-live-entry", format!("slot {} was served and is gone from the cache afterwards", slot));
                }
                if entry.is_some() && outs.iter().any(|o| o.why == Why::MissExpired) && has && !cand.iter().any(|o| o.state.keys().contains(&(slot as Key))) {
                    return mk("C06", "expired-entry-not-purged", format!("slot {} expired but still listed", slot));
                }
                return mk("C19", "cache-content-after-call-unexplained", format!("after the call the cache lists {:?}; the configured model allows {:?}", l, cand.iter().map(|o| o.state.keys()).collect::<Vec<_>>()));
            }
        }
        // 5. statistics
        if stats.is_some() {
            return mk("C15", "hit-miss-counters", format!("stats {:?} differ from the model after the call", stats));
        }
        mk("C19", "behaviour-differs-from-configured-model", "observation not explained by the model configured from the attributes".into())
    }

    fn expected_group_matches(&self, kind: &str, name: &str) -> BTreeSet<u32> {
        let mut s = BTreeSet::new();
        for d in corpus::FUNCS.iter() {
            if d.scope_thread || !self.proc_.used.contains(&d.fid) {
                continue;
            }
            let has_meta = !(d.tags.is_empty() && d.events.is_empty() && d.deps.is_empty());
            let hit = match kind {
                "tag" => d.tags.contains(&name),
                "event" => d.events.contains(&name),
                "dep" => d.deps.contains(&name),
                _ => has_meta && d.reg_name == name,
            };
            if hit {
                s.insert(d.fid);
            }
        }
        s
    }

    fn do_group_inv(&mut self, kind: &str, name: &str) -> Result<(), Viol> {
        let expect = self.expected_group_matches(kind, name);
        let got: usize = match kind {
            "tag" => cachelito_core::invalidate_by_tag(name),
            "event" => cachelito_core::invalidate_by_event(name),
            "dep" => cachelito_core::invalidate_by_dependency(name),
            _ => cachelito_core::invalidate_cache(name) as usize,
        };
        self.rep.count("C12", "group_invalidation_requests", 1);
        self.rep.count("L2", "scenarios", 1);
        if expect.is_empty() {
            self.rep.count("C12", "requests_matching_nothing", 1);
        }
        self.rep.distinct("C12", hash64(&[hash_str(kind), hash_str(name), expect.len() as u64, hash64(&expect.iter().map(|x| *x as u64).collect::<Vec<_>>())]));
        let anycfg = self.fns[0].cfg;
        // (a wrong count is reported after the caches were looked at: a request that reached a
        // cache it does not concern is a C13 matter first)
        let count_viol = if got != expect.len() {
            Some(Viol { prop: "C12".into(), sig: format!("C12|L2|registry|{}|wrong-count|", kind), what: format!("invalidate by {} {:?} returned {}, {} used caches match ({:?})", kind, name, got, expect.len(), expect), detail: json!({"kind": kind, "name": name, "cfg0": cfg_json(&anycfg)}) })
        } else {
            None
        };
        if let Some(v) = &count_viol {
            for fi in 0..self.fns.len() {
                if self.fns[fi].shared() && !expect.contains(&self.fns[fi].d.fid) {
                    self.filter_by_listing(fi, None, "group-nonmatching")?;
                }
            }
            return Err(Viol { prop: v.prop.clone(), sig: v.sig.clone(), what: v.what.clone(), detail: v.detail.clone() });
        }
        for fi in 0..self.fns.len() {
            let fid = self.fns[fi].d.fid;
            if !self.fns[fi].shared() {
                continue;
            }
            let matched = expect.contains(&fid);
            if matched {
                let had: Vec<u32> = self.fns[fi].beliefs[0].states.iter().flat_map(|s| s.ents.iter().map(|e| e.key as u32)).collect();
                self.taint_removed(fi, &had, "group-invalidation");
                for b in self.fns[fi].beliefs.iter_mut() {
                    for s in b.states.iter_mut() {
                        s.clear_entries();
                    }
                }
                self.rep.count("C12", "matching_group_caches_checked_empty", 1);
            } else {
                self.rep.count("C13", "non_matching_caches_checked_intact", 1);
            }
            self.filter_by_listing(fi, None, if matched { "group-matching" } else { "group-nonmatching" })?;
            self.check_stats(fi)?;
        }
        Ok(())
    }

    fn pred_strings(&self, f: usize, slots: &[u32]) -> BTreeSet<String> {
        slots.iter().filter_map(|s| self.fns[f].keymap.get(s).cloned()).collect()
    }

    fn apply(&mut self, op: &Op) -> Result<(), Viol> {
        self.ops.push(op.clone());
        match op {
            Op::Adv(ns) => {
                vmon::clock::advance(*ns);
                Ok(())
            }
            Op::Call { f, slot, actor, pure_, value, ok, len, pred, check } => self.do_call(*f, *slot, *actor, *pure_, *value, *ok, *len, *pred, *check),
            Op::PollStart { f, slot, actor, pure_, value, ok, len, pred, check } => {
                if self.fns[*f].d.fut.is_none() || self.susp.contains_key(actor) {
                    self.do_call(*f, *slot, *actor, *pure_, *value, *ok, *len, *pred, *check)
                } else {
                    self.do_poll_start(*f, *slot, *actor, *pure_, *value, *ok, *len, *pred, *check)
                }
            }
            Op::PollStep { actor } => self.do_poll_step(*actor),
            Op::PollDrop { actor } => self.do_poll_drop(*actor),
            Op::Nested { outer, inner, body_panics } => self.do_nested(outer, inner.as_deref(), *body_panics),
            Op::InvWith { f, slots } => {
                let strs = self.pred_strings(*f, slots);
                let name = self.fns[*f].d.reg_name;
                let r = cachelito_core::invalidate_with(name, |k| strs.contains(k));
                self.rep.count("C13", "conditional_invalidations", 1);
                self.rep.count("L2", "scenarios", 1);
                let used = self.proc_.used.contains(&self.fns[*f].d.fid);
                if r != used {
                    let cfg = self.fns[*f].cfg;
                    return Err(Viol { prop: "C13".into(), sig: sig("C13", "L2", &cfg, "invalidate_with-return-value", ""), what: format!("invalidate_with({:?}) returned {} for a cache that was {}used", name, r, if used { "" } else { "never " }), detail: json!({}) });
                }
                let ks: BTreeSet<Key> = slots.iter().map(|s| *s as Key).collect();
                self.taint_removed(*f, slots, "conditional-invalidation");
                let n_before = self.fns[*f].beliefs[0].single().map_or(0, |s| s.ents.len());
                for b in self.fns[*f].beliefs.iter_mut() {
                    for s in b.states.iter_mut() {
                        s.remove_keys(&ks);
                    }
                }
                self.rep.distinct("C13", hash64(&[self.fns[*f].d.fid as u64, n_before as u64, hash64(&slots.iter().map(|x| *x as u64).collect::<Vec<_>>())]));
                for fi in 0..self.fns.len() {
                    self.filter_by_listing(fi, None, if fi == *f { "invalidate_with" } else { "group-nonmatching" })?;
                    self.check_stats(fi)?;
                }
                Ok(())
            }
            Op::InvAllWith { pairs } => {
                let mut want: HashMap<&'static str, BTreeSet<String>> = HashMap::new();
                for (f, slots) in pairs {
                    want.insert(self.fns[*f].d.reg_name, self.pred_strings(*f, slots));
                }
                let n = cachelito_core::invalidate_all_with(|name, key| want.get(name).map_or(false, |s| s.contains(key)));
                self.rep.count("C13", "global_conditional_invalidations", 1);
                self.rep.count("L2", "scenarios", 1);
                let _ = n; // number of registered caches consulted: not part of any property
                for (f, slots) in pairs {
                    self.taint_removed(*f, slots, "conditional-invalidation");
                    let ks: BTreeSet<Key> = slots.iter().map(|s| *s as Key).collect();
                    for b in self.fns[*f].beliefs.iter_mut() {
                        for s in b.states.iter_mut() {
                            s.remove_keys(&ks);
                        }
                    }
                }
                self.rep.distinct("C13", hash64(&[7, hash64(&pairs.iter().flat_map(|(f, s)| std::iter::once(*f as u64 + 1000).chain(s.iter().map(|x| *x as u64))).collect::<Vec<_>>())]));
                for fi in 0..self.fns.len() {
                    self.filter_by_listing(fi, None, "invalidate_all_with")?;
                    self.check_stats(fi)?;
                }
                Ok(())
            }
            Op::InvTag(t) => self.do_group_inv("tag", t),
            Op::InvEvent(t) => self.do_group_inv("event", t),
            Op::InvDep(t) => self.do_group_inv("dep", t),
            Op::InvName(t) => self.do_group_inv("name", t),
            Op::StatsReset { f } => {
                let name = self.fns[*f].d.reg_name;
                let r = cachelito_core::stats_registry::reset(name);
                self.rep.count("C15", "stats_resets", 1);
                let used = self.proc_.used.contains(&self.fns[*f].d.fid);
                if r != used && used {
                    let cfg = self.fns[*f].cfg;
                    return Err(Viol { prop: "C15".into(), sig: sig("C15", "L2", &cfg, "stats-reset-unknown-name", ""), what: format!("stats_registry::reset({:?}) returned false for a used cache", name), detail: json!({}) });
                }
                for b in self.fns[*f].beliefs.iter_mut() {
                    for s in b.states.iter_mut() {
                        s.hits = 0;
                        s.misses = 0;
                    }
                }
                // resetting one cache's statistics leaves all others (and all contents) unchanged
                for fi in 0..self.fns.len() {
                    self.filter_by_listing(fi, None, "stats_reset")?;
                    self.check_stats(fi)?;
                }
                Ok(())
            }
        }
    }

    /// empties the group's global/async caches and statistics; the emptying is itself monitored
    fn reset_group(&mut self) -> Result<(), Viol> {
        for fi in 0..self.fns.len() {
            if !self.fns[fi].shared() {
                continue;
            }
            let name = self.fns[fi].d.reg_name;
            let removed_something = std::cell::Cell::new(false);
            cachelito_core::invalidate_with(name, |_| {
                removed_something.set(true);
                true
            });
            if removed_something.get() {
                self.fns[fi].taint.push((u32::MAX, "conditional-invalidation"));
            }
            cachelito_core::stats_registry::reset(name);
            self.filter_by_listing(fi, None, "reset")?;
            self.check_stats(fi)?;
        }
        Ok(())
    }
}

// ------------------------------------------------------------------------------------------
// history generation
// ------------------------------------------------------------------------------------------
fn in_focus(d: &FnDesc, focus: &str) -> bool {
    match focus {
        "C03" => d.limit.is_none() && d.ttl.is_none() && d.max_memory.is_none() && !d.has_cache_if && !d.has_invalidate_on,
        "C04" => d.limit.is_some(),
        "C05" => d.max_memory.is_some(),
        "C06" => d.ttl.is_some(),
        "C07" => matches!(d.policy, "fifo" | "lru") && (d.limit.is_some() || d.max_memory.is_some()),
        "C08" => matches!(d.policy, "lfu" | "arc" | "tlru") && (d.limit.is_some() || d.max_memory.is_some()),
        "C09" => d.is_result && !d.has_cache_if,
        "C10" => d.has_cache_if,
        "C11" => d.has_invalidate_on,
        "C12" => !d.scope_thread,
        "C13" => !d.scope_thread,
        "C15" => !d.scope_thread,
        "C20" => d.is_async,
        _ => true,
    }
}

struct Gen {
    rng: Rng,
    serial: u64,
}

fn gen_call(g: &mut Gen, h: &Hist, f: usize, n_actors: usize, focus: &str) -> Op {
    let m = &h.fns[f];
    let d = m.d;
    let slot = m.slots[g.rng.skewed(m.slots.len())];
    let actor = g.rng.usize(n_actors);
    let _ = focus;
    let pure_ = m.pure_;
    g.serial += 1;
    let ok = pure_ || !d.is_result || g.rng.chance(3, 5);
    let value = g.serial * 2 + ok as u64;
    let len = if d.sized && !pure_ {
        match d.max_memory {
            Some(mm) => {
                let base = fp_base(d.ret_kind);
                let target = match g.rng.usize(12) {
                    0 => mm + 1 + g.rng.usize(mm / 2),
                    1 => mm,
                    2 => mm - 1,
                    3 => mm + 1,
                    4 => mm - 23,
                    5 => mm / 2,
                    6 => mm / 2 + 1,
                    7 | 8 => mm / 3,
                    _ => base + 16 + g.rng.usize(mm / 2),
                };
                Some(target.saturating_sub(base).max(16))
            }
            None => Some(16 + g.rng.usize(48)),
        }
    } else {
        None
    };
    let pred = g.rng.chance(3, 5);
    let check = g.rng.chance(2, 5);
    Op::Call { f, slot, actor, pure_, value, ok, len, pred, check }
}

fn stored_slots(h: &Hist, f: usize) -> Vec<u32> {
    h.fns[f].beliefs[0].single().map(|s| s.ents.iter().map(|e| e.key as u32).collect()).unwrap_or_default()
}

fn gen_op(g: &mut Gen, h: &Hist, n_actors: usize, focus: &str) -> Op {
    let nf = h.fns.len();
    let f = g.rng.usize(nf);
    let shared: Vec<usize> = (0..nf).filter(|i| h.fns[*i].shared()).collect();
    let any_ttl = h.fns.iter().any(|m| m.d.ttl.is_some());
    let (w_adv, w_invw, w_invall, w_group, w_reset) = match focus {
        "C12" => (if any_ttl { 4 } else { 1 }, 4, 2, 22, 1),
        "C13" => (if any_ttl { 4 } else { 1 }, 12, 7, 10, 1),
        "C15" => (if any_ttl { 10 } else { 1 }, 4, 2, 3, 5),
        "C06" => (22, 1, 0, 1, 0),
        // C03: statistics may be reset at any time without the cache forgetting anything
        "C03" => (1, 0, 0, 0, 6),
        "C14" | "C09" | "C10" | "C11" | "C01" => (if any_ttl { 10 } else { 1 }, 2, 1, 1, 1),
        _ => (if any_ttl { 12 } else { 1 }, 3, 1, 2, 1),
    };
    if focus == "C20" {
        let r = g.rng.usize(100);
        let busy: Vec<usize> = h.susp.keys().copied().collect();
        if !busy.is_empty() {
            let a = *g.rng.pick(&busy);
            if r < 28 {
                return Op::PollStep { actor: a };
            }
            if r < 36 {
                return Op::PollDrop { actor: a };
            }
        }
        if r >= 36 && r < 62 {
            let asyncs: Vec<usize> = (0..nf).filter(|i| h.fns[*i].d.fut.is_some()).collect();
            let free: Vec<usize> = (0..n_actors).filter(|a| !h.susp.contains_key(a)).collect();
            if !asyncs.is_empty() && !free.is_empty() {
                let f = *g.rng.pick(&asyncs);
                if let Op::Call { f, slot, pure_, value, ok, len, pred, check, .. } = gen_call(g, h, f, n_actors, focus) {
                    return Op::PollStart { f, slot, actor: *g.rng.pick(&free), pure_, value, ok, len, pred, check };
                }
            }
        }
    }
    let r = g.rng.usize(100);
    let mut acc = w_adv;
    if r < acc {
        // aim at an expiry boundary of some cached entry
        let now = vmon::clock::now();
        let mut targets = vec![];
        for m in &h.fns {
            if let Some(t) = m.d.ttl.filter(|t| model::ttl_reachable(*t)) {
                for b in &m.beliefs {
                    if let Some(s) = b.single() {
                        for e in &s.ents {
                            targets.push(e.born.saturating_add(ttl_ns(t)) - now);
                        }
                    }
                }
            }
        }
        let ns = match g.rng.usize(6) {
            0 => 250_000_000,
            1 => SEC,
            2 => 1,
            _ if !targets.is_empty() => (*g.rng.pick(&targets) + [-1i64, 0, 1, -SEC, SEC - 1, 0][g.rng.usize(6)]).max(1),
            _ => SEC / 2,
        };
        let aligned = h.hist_id % 2 == 0 && h.fns.iter().all(|m| m.d.is_async || m.d.ttl.is_none());
        return Op::Adv(if aligned { ((ns + SEC - 1) / SEC).max(1) * SEC } else { ns });
    }
    acc += w_invw;
    if r < acc && !shared.is_empty() {
        let f = *g.rng.pick(&shared);
        let st = stored_slots(h, f);
        let mut slots: Vec<u32> = st.iter().copied().filter(|_| g.rng.chance(1, 2)).collect();
        if g.rng.chance(1, 6) {
            slots = st.clone();
        }
        return Op::InvWith { f, slots };
    }
    acc += w_invall;
    if r < acc && !shared.is_empty() {
        let mut pairs = vec![];
        for f in &shared {
            if g.rng.chance(2, 3) {
                let st = stored_slots(h, *f);
                let slots: Vec<u32> = st.iter().copied().filter(|_| g.rng.chance(1, 2)).collect();
                pairs.push((*f, slots));
            }
        }
        return Op::InvAllWith { pairs };
    }
    acc += w_group;
    if r < acc {
        let pool_t = ["t_user", "t_geo", "t_cfg", "shared_a", "shared_b", "shared_c", "nobody_declares_this", "e_upd", "d_db", "UserData", "userdata", " padded ", "padded"];
        let pool_e = ["e_upd", "e_del", "shared_a", "shared_c", "shared_b", "nobody_declares_this", "t_user", "E_Upper", "e_upper"];
        let pool_d = ["d_db", "d_idx", "shared_b", "shared_c", "shared_a", "nobody_declares_this", "e_del", "Dep.X", "dep.x", "padded"];
        // most of the time aim at something a group member declares
        if g.rng.chance(3, 5) {
            let d = h.fns[g.rng.usize(nf)].d;
            let mut opts: Vec<Op> = vec![];
            opts.extend(d.tags.iter().map(|x| Op::InvTag(x.to_string())));
            opts.extend(d.events.iter().map(|x| Op::InvEvent(x.to_string())));
            opts.extend(d.deps.iter().map(|x| Op::InvDep(x.to_string())));
            if !opts.is_empty() {
                opts.push(Op::InvName(d.reg_name.to_string()));
                let op = opts[g.rng.usize(opts.len())].clone();
                // sometimes another spelling of the same label (other case, without the padding):
                // it matches only caches that declare exactly that spelling
                if g.rng.chance(1, 5) {
                    let respell = |x: &String| if g.rng.clone().chance(1, 2) { x.trim().to_lowercase() } else { x.to_uppercase() };
                    return match &op {
                        Op::InvTag(x) => Op::InvTag(respell(x)),
                        Op::InvEvent(x) => Op::InvEvent(respell(x)),
                        Op::InvDep(x) => Op::InvDep(respell(x)),
                        Op::InvName(x) => Op::InvName(respell(x)),
                        _ => op,
                    };
                }
                return op;
            }
        }
        return match g.rng.usize(4) {
            0 => Op::InvTag(g.rng.pick(&pool_t).to_string()),
            1 => Op::InvEvent(g.rng.pick(&pool_e).to_string()),
            2 => Op::InvDep(g.rng.pick(&pool_d).to_string()),
            _ => {
                // by name: a group member, some other corpus function (used or not), or nonsense
                let name = match g.rng.usize(4) {
                    0 | 1 => h.fns[g.rng.usize(nf)].d.reg_name.to_string(),
                    2 => corpus::FUNCS[g.rng.usize(corpus::FUNCS.len())].reg_name.to_string(),
                    _ => "no_such_cache".to_string(),
                };
                Op::InvName(name)
            }
        };
    }
    acc += w_reset;
    if r < acc && !shared.is_empty() {
        return Op::StatsReset { f: *g.rng.pick(&shared) };
    }
    // a call whose body calls another decorated function (most often: itself with other arguments,
    // like a recursive memoised function) or panics
    let (p_nested, p_panic) = match focus {
        "C17" => (40, 8),
        "C16" => (10, 5),
        "C20" => (0, 0),
        _ => (4, 1),
    };
    let r = g.rng.usize(100);
    if r < p_nested + p_panic {
        let outer = gen_call(g, h, f, n_actors, focus);
        if let Op::Call { slot, actor, .. } = outer {
            let body_panics = r >= p_nested;
            let mut inner = None;
            if !body_panics || g.rng.chance(1, 3) {
                let same = nf == 1 || g.rng.chance(3, 5);
                let fi = if same { f } else { g.rng.usize(nf) };
                if let Op::Call { f: fi, slot: si, pure_, value, ok, len, pred, check, .. } = gen_call(g, h, fi, n_actors, focus) {
                    // same cache: other arguments, and (for caches whose content is listed) a key
                    // string that is already known, so that at most one new key appears per operation
                    let ok_same = fi != f || (si != slot && (!h.fns[f].shared() || h.fns[f].keymap.contains_key(&si)));
                    if ok_same {
                        inner = Some(Box::new(Op::Call { f: fi, slot: si, actor, pure_, value, ok, len, pred, check }));
                    }
                }
            }
            if inner.is_some() || body_panics {
                return Op::Nested { outer: Box::new(outer), inner, body_panics };
            }
            return outer;
        }
    }
    gen_call(g, h, f, n_actors, focus)
}

fn new_fnmon(d: &'static FnDesc, n_actors: usize, rng: &mut Rng, focus: &str) -> FnMon {
    let pure_ = match focus {
        "C01" => rng.chance(3, 4),
        "C09" => rng.chance(1, 6),
        _ => rng.chance(1, 2),
    };
    let cfg = cfg_of(d);
    let cap = d.limit.unwrap_or(if d.max_memory.is_some() { 4 } else { 3 }).min(5);
    let n = (cap + 1 + rng.usize(3)).min(d.nslots as usize).max(1);
    let off = if d.nslots as usize > n { rng.usize(d.nslots as usize - n + 1) } else { 0 };
    let slots: Vec<u32> = (0..n).map(|i| (off + i) as u32).collect();
    let nb = if d.scope_thread { n_actors } else { 1 };
    FnMon { d, cfg, wd: wd_of(d), beliefs: (0..nb).map(|_| Belief::new()).collect(), keymap: BTreeMap::new(), rev: HashMap::new(), vals: HashMap::new(), stored_by: HashMap::new(), nostore: HashMap::new(), slots, execs: HashMap::new(), taint: vec![], refreshed: BTreeSet::new(), resumed_store: BTreeSet::new(), pure_ }
}

/// C03, sequential: with nothing that could remove an entry, the body ran exactly once per
/// distinct tuple (per thread for thread scope).
fn check_exactly_once(h: &mut Hist) -> Result<(), Viol> {
    for m in &h.fns {
        let d = m.d;
        if d.limit.is_some() || d.ttl.is_some() || d.max_memory.is_some() || d.has_cache_if || d.has_invalidate_on || d.is_result {
            continue;
        }
        let invalidated = h.ops.iter().any(|o| !matches!(o, Op::Call { .. } | Op::Adv(_) | Op::StatsReset { .. } | Op::Nested { .. }));
        if invalidated {
            continue;
        }
        let mut per_slot: HashMap<(usize, u32), u32> = HashMap::new();
        for ((actor, slot), n) in &m.execs {
            let a = if m.shared() { 0 } else { *actor };
            *per_slot.entry((a, *slot)).or_insert(0) += n;
        }
        for ((a, slot), n) in per_slot {
            h.rep.count("C03", "tuples_checked_exactly_once", 1);
            if n != 1 {
                return Err(Viol { prop: "C03".into(), sig: sig("C03", "L2", &m.cfg, "not-exactly-once", ""), what: format!("{} ran {} times for slot {} (thread {})", d.fn_name, n, slot, a), detail: json!({"fid": d.fid}) });
            }
        }
    }
    Ok(())
}

fn run_history(rep: &mut Report, proc_: &mut Proc, group: &[usize], n_actors: usize, focus: &str, seed: u64, hist_id: u64, replay_ops: Option<Vec<Op>>, serial0: u64) -> (bool, u64) {
    vmon::clock::init();
    let mut rng = Rng::new(seed ^ hist_id.wrapping_mul(0x9E37_79B9_7F4A_7C15));
    let fns: Vec<FnMon> = group.iter().map(|i| new_fnmon(&corpus::FUNCS[*i], n_actors, &mut rng, focus)).collect();
    let actors: Vec<Actor> = (0..n_actors).map(|_| Actor::spawn()).collect();
    let mut h = Hist { susp: HashMap::new(), rep, proc_, fns, actors, ops: vec![], focus: focus.to_string(), seed, hist_id };
    h.rep.count("L2", "histories", 1);
    let mut g = Gen { rng, serial: serial0 };
    let res: Result<(), Viol> = (|| {
        h.reset_group()?;
        match replay_ops {
            Some(ops) => {
                for op in ops {
                    h.apply(&op)?;
                }
            }
            None => {
                let len = 30 + g.rng.usize(90);
                for _ in 0..len {
                    let op = gen_op(&mut g, &h, n_actors, focus);
                    h.apply(&op)?;
                }
                // calls still suspended are resumed to completion or dropped
                let busy: Vec<usize> = h.susp.keys().copied().collect();
                for a in busy {
                    if g.rng.chance(1, 2) {
                        for _ in 0..4 {
                            if h.susp.contains_key(&a) {
                                h.apply(&Op::PollStep { actor: a })?;
                            }
                        }
                    }
                    if h.susp.contains_key(&a) {
                        h.apply(&Op::PollDrop { actor: a })?;
                    }
                }
                // closing sweep: every slot of every function once more, on actor 0
                for f in 0..h.fns.len() {
                    for s in h.fns[f].slots.clone() {
                        let op = gen_call_fixed(&mut g, &h, f, s);
                        h.apply(&op)?;
                    }
                }
                check_exactly_once(&mut h)?;
            }
        }
        Ok(())
    })();
    let serial = g.serial;
    match res {
        Ok(()) => {
            if hist_id % 1_000_003 == (hist_id / 1_000_003) % 97 {
                let s = json!({"group": h.fns.iter().map(|m| m.d.attr_text).collect::<Vec<_>>(), "actors": n_actors, "ops": h.ops.iter().take(30).map(op_json).collect::<Vec<_>>(), "ops_total": h.ops.len(), "verdict": "every observation explained by the model"});
                for p in ["C01", "C03", "C04", "C05", "C06", "C07", "C08", "C09", "C10", "C11", "C12", "C13", "C14", "C15", "C16", "C19", "C20"] {
                    h.rep.sample(p, s.clone(), 1);
                }
            }
            (true, serial)
        }
        Err(v) => {
            if !v.prop.is_empty() {
                h.fail(v);
                (false, serial)
            } else {
                (true, serial)
            }
        }
    }
}

fn gen_call_fixed(g: &mut Gen, h: &Hist, f: usize, slot: u32) -> Op {
    g.serial += 1;
    let pure_ = h.fns[f].pure_;
    Op::Call { f, slot, actor: 0, pure_, value: g.serial * 2 + 1, ok: true, len: None, pred: true, check: false }
}

/// Direct rules for the corpus "extras" (self-recursive by name, unit-returning, clashing names):
/// forms the descriptor-driven histories cannot express.  Runs once per process, before any
/// other decorated function is used, on a thread of its own.
fn extras_probe(rep: &mut Report, focus: &str, seed: u64) {
    if focus == "C05" {
        bigmem_probe(rep, seed);
    }
    if !matches!(focus, "C01" | "C03" | "C04" | "C09" | "C15" | "C16" | "C17" | "C19") {
        // the clashing names still have to be registered first in every process
        for d in corpus::EXTRAS.iter().filter(|d| d.kind == "dup") {
            let _ = std::panic::catch_unwind(|| (d.call)(1));
        }
        return;
    }
    let focus = focus.to_string();
    let focus_t = focus.clone();
    let out: Vec<(String, String, String, Value)> = std::thread::spawn(move || {
        let focus = focus_t;
        let mut viol: Vec<(String, String, String, Value)> = vec![];
        let mut rng = Rng::new(seed ^ 0xE17A5);
        vhooks::disarm_exec();
        vhooks::arm_pred(None);
        vhooks::arm_check(None);
        vhooks::arm_nested(None);
        let order: Vec<&corpus::ExtraDesc> = corpus::EXTRAS.iter().filter(|d| d.kind == "dup").chain(corpus::EXTRAS.iter().filter(|d| d.kind != "dup" && d.kind != "bigm" && (focus != "C09" || d.kind == "mres"))).collect();
        for d in order {
            let flavour = if d.is_async { "async" } else if d.scope_thread { "thread" } else { "global" };
            let sg = |p: &str, kind: &str| format!("{}|L2|{}|{}|{}|{}", p, flavour, d.policy, kind, d.kind);
            let wit = |args: &Vec<u32>| json!({"monitor": "l2mon-extras", "fid": d.fid, "fn": d.fn_name, "attrs": d.attr_text, "args_so_far": args, "seed": seed});
            // expected value of the undecorated function
            let expect = |a: u32| -> u64 {
                match d.kind {
                    "unit" => 0,
                    "opt" => {
                        if a % 3 == 0 {
                            0
                        } else {
                            vhooks::mix(d.fid, (d.digest)(a))
                        }
                    }
                    "dup" => vhooks::mix(d.fid, (d.digest)(a)),
                    "mres" => {
                        if a % 3 == 0 {
                            u64::MAX
                        } else {
                            vhooks::mix(d.fid, (d.digest)(a))
                        }
                    }
                    _ => {
                        let mut v = 0u64;
                        let mut i = a;
                        loop {
                            v = v.wrapping_add(vhooks::mix(d.fid, (d.digest)(i)));
                            if i % 16 == 0 {
                                break;
                            }
                            i -= 1;
                        }
                        v
                    }
                }
            };
            let n = if d.kind == "dup" { 4 } else { 40 };
            let mut execs: HashMap<u64, u32> = HashMap::new();
            let mut args: Vec<u32> = vec![];
            for step in 0..n {
                let a = if step > 0 && rng.chance(1, 4) { args[rng.usize(args.len())] } else { rng.usize(48) as u32 };
                let repeat_of_last = args.last() == Some(&a);
                args.push(a);
                vhooks::take_log();
                let r = std::panic::catch_unwind(|| (d.call)(a));
                let ev = vhooks::take_log();
                let mut ran = 0;
                for e in &ev {
                    if let Event::Exec { fid, digest, .. } = e {
                        if *fid == d.fid {
                            *execs.entry(*digest).or_insert(0) += 1;
                            ran += 1;
                        }
                    }
                }
                match r {
                    Err(p) => {
                        let msg = panic_text(p);
                        if msg.starts_with(vmon::lockmon::SELF_DEADLOCK) {
                            viol.push(("C17".into(), sg("C17", "recursive-call-blocks-forever"), format!("{}({}) can never return: {}", d.fn_name, a, msg), wit(&args)));
                        } else {
                            viol.push(("C16".into(), sg("C16", "panic-in-decorated-call"), format!("{}({}) panicked: {}", d.fn_name, a, msg), wit(&args)));
                        }
                        break;
                    }
                    Ok(v) => {
                        if v != expect(a) {
                            viol.push(("C01".into(), sg("C01", "returned-value-differs-from-undecorated-function"), format!("{}({}) returned {:x}, the undecorated function returns {:x}", d.fn_name, a, v, expect(a)), wit(&args)));
                            break;
                        }
                    }
                }
                // a failing call of a Result function runs its body every time
                if d.kind == "mres" && a % 3 == 0 && ran != 1 {
                    viol.push(("C09".into(), sg("C09", "err-outcome-not-recomputed"), format!("{}({}) fails with Err, yet this call ran the body {} times (an Err is never stored)", d.fn_name, a, ran), wit(&args)));
                    break;
                }
                // an argument tuple that was the outermost (last) store of the previous call is still there
                if repeat_of_last && !(d.kind == "mres" && a % 3 == 0) && ran > 0 && d.attr_text.find("max_memory").is_none() && matches!(d.policy, "fifo" | "lru") {
                    viol.push(("C03".into(), sg("C03", "repeat-of-the-previous-call-recomputed"), format!("{}({}) ran its body {} times although the previous call had just stored that result", d.fn_name, a, ran), wit(&args)));
                    break;
                }
                if let (Some(lim), false) = (d.limit, d.scope_thread) {
                    if let Some(l) = listing(d.fn_name) {
                        if l.len() > lim {
                            viol.push(("C04".into(), sg("C04", "limit-exceeded"), format!("{} holds {} entries after a call, limit {}", d.fn_name, l.len(), lim), wit(&args)));
                            break;
                        }
                    }
                }
            }
            // nothing bounds the cache: every argument tuple ran its body exactly once, however it
            // was reached (directly or through the function calling itself)
            if d.limit.is_none() && d.attr_text.find("max_memory").is_none() && d.attr_text.find("ttl").is_none() {
                if let Some((dg, c)) = execs.iter().find(|(dg, c)| **c != 1 && !(d.kind == "mres" && (0..64u32).find(|a| (d.digest)(*a) == **dg).map_or(false, |a| a % 3 == 0))) {
                    let which = (0..64u32).find(|a| (d.digest)(*a) == *dg);
                    viol.push(("C03".into(), sg("C03", "not-exactly-once"), format!("{} ran its body {} times for argument {:?} (unbounded cache, no invalidation)", d.fn_name, c, which), wit(&args)));
                }
            }
        }
        viol.retain(|v| v.0 == focus || (focus == "C19" && (v.0 == "C03" || v.0 == "C09")));
        viol
    })
    .join()
    .unwrap_or_default();
    rep.count("L2", "extras_probed", corpus::EXTRAS.len() as u64);
    if focus == "C09" {
        rep.count("C09", "calls_of_result_functions_stamped_by_macro_rules", 40 * corpus::EXTRAS.iter().filter(|d| d.kind == "mres").count() as u64);
    }
    for p in ["C01", "C03", "C04", "C16", "C17"] {
        rep.count(p, "calls_of_self_recursive_and_unit_functions", if p == focus { 40 * corpus::EXTRAS.iter().filter(|d| d.kind != "dup").count() as u64 } else { 0 });
    }
    for (p, sig, what, wit) in out {
        rep.violation(&p, &sig, &what, wit);
    }
}

/// C05 at a scale the model-driven monitors do not reach: a 64 KiB bound, about a hundred small
/// residents, then values that need most of the bound (long vectors with unevenly sized
/// elements), so that one store displaces dozens of entries.  Direct rule: after every call the
/// footprints of the listed entries (computed here from the arguments) sum to at most the bound.
fn bigmem_probe(rep: &mut Report, seed: u64) {
    let out: Vec<(String, String, Value)> = std::thread::spawn(move || {
        let mut viol = vec![];
        let mut rng = Rng::new(seed ^ 0xB16_3E3);
        vhooks::disarm_exec();
        vhooks::arm_pred(None);
        vhooks::arm_check(None);
        vhooks::arm_nested(None);
        let mut counters = (0u64, 0u64, 0u64, 0u64);
        let mut fp_memo: HashMap<u32, usize> = HashMap::new();
        for d in corpus::EXTRAS.iter().filter(|d| d.kind == "bigm") {
            let flavour = if d.is_async { "async" } else { "global" };
            let mut args: Vec<u32> = vec![];
            let mut next_small = 0u32;
            let mut before = 0usize;
            let n_small = 100 + rng.usize(20);
            let mut plan: Vec<u32> = (0..n_small).map(|_| { next_small += 1; next_small }).collect();
            for _ in 0..3 {
                plan.push(1000 + rng.usize(5000) as u32);
                for _ in 0..rng.usize(70) {
                    next_small += 1;
                    plan.push(if rng.chance(1, 4) { 1 + rng.usize(next_small as usize) as u32 } else { next_small });
                }
            }
            'hist: for a in plan {
                args.push(a);
                if std::panic::catch_unwind(|| (d.call)(a)).is_err() {
                    break;
                }
                counters.0 += 1;
                let Some(l) = listing(d.fn_name) else { break };
                let mut total = 0usize;
                for k in &l {
                    let digits: String = k.chars().filter(|c| c.is_ascii_digit()).collect();
                    match digits.parse::<u32>() {
                        Ok(x) => total += *fp_memo.entry(x).or_insert_with(|| corpus::big_footprint(x)),
                        Err(_) => {
                            counters.3 += 1;
                            break 'hist;
                        }
                    }
                }
                counters.1 = counters.1.max(l.len() as u64);
                if before > l.len() + 64 {
                    counters.2 += 1;
                }
                before = l.len();
                if total > corpus::BIGM_BOUND {
                    viol.push((format!("C05|L2|{}|{}|memory-bound-exceeded-after-store|bigm", flavour, d.policy), format!("{}: after the call with {} the cache lists {} entries whose values occupy {} bytes, max_memory is {}", d.fn_name, a, l.len(), total, corpus::BIGM_BOUND), json!({"monitor": "l2mon-bigmem", "fid": d.fid, "fn": d.fn_name, "attrs": d.attr_text, "args_so_far": args, "seed": seed})));
                    break;
                }
            }
        }
        viol.push(("".into(), format!("{} {} {} {}", counters.0, counters.1, counters.2, counters.3), json!(null)));
        viol
    })
    .join()
    .unwrap_or_default();
    for (sig, what, wit) in out {
        if sig.is_empty() {
            let c: Vec<u64> = what.split(' ').map(|x| x.parse().unwrap_or(0)).collect();
            rep.count("C05", "bigmem_probe_calls_with_footprint_sum_checked", c[0]);
            rep.count("C05", "bigmem_probe_stores_displacing_more_than_64_entries", c[2]);
            rep.count("C05", "bigmem_probe_unreadable_keys", c[3]);
            rep.notes.push(format!("bigmem probe: up to {} residents under the 64 KiB bound", c[1]));
        } else {
            rep.violation("C05", &sig, &what, wit);
        }
    }
}

/// Names that declare tags / events / dependencies but belong to no cache that was ever used
/// (metadata registered through the public registry API, no clear callback): C12 counts and
/// empties the *used* matching caches, whatever else is registered under the same tag.
fn register_unused_names() {
    let all = |v: &[&str]| v.iter().map(|s| s.to_string()).collect::<Vec<_>>();
    for i in 0..6 {
        cachelito_core::InvalidationRegistry::global().register(
            &format!("declared_only_{}", i),
            cachelito_core::InvalidationMetadata::new(
                all(&["t_user", "t_geo", "t_cfg", "shared_a", "shared_b", "t_conc"]),
                all(&["e_upd", "e_del", "shared_a", "shared_c"]),
                all(&["d_db", "d_idx", "shared_b", "shared_c"]),
            ),
        );
    }
}

fn main() {
    register_unused_names();
    let args: Vec<String> = std::env::args().collect();
    let mut out = String::from("/dev/stdout");
    let mut seed = vmon::rng::seed_from_env();
    let mut shard = (0usize, 1usize);
    let mut tier = String::from("quick");
    let mut focus = String::from("all");
    let mut replay: Option<String> = None;
    let mut round = 0u64;
    let mut rounds = 0u64;
    let mut single_actor = false;
    let mut i = 1;
    while i < args.len() {
        let nx = || args.get(i + 1).cloned().unwrap_or_default();
        match args[i].as_str() {
            "--out" => out = nx(),
            "--seed" => seed = nx().parse().unwrap(),
            "--shard" => {
                let p: Vec<usize> = nx().split('/').map(|x| x.parse().unwrap()).collect();
                shard = (p[0], p[1]);
            }
            "--tier" => tier = nx(),
            "--focus" => focus = nx(),
            "--replay" => replay = Some(nx()),
            "--round" => round = nx().parse().unwrap(),
            "--rounds" => rounds = nx().parse().unwrap(),
            "--single-actor" => {
                single_actor = true;
                i += 1;
                continue;
            }
            _ => {
                i += 1;
                continue;
            }
        }
        i += 2;
    }
    std::panic::set_hook(Box::new(|_| {}));
    vmon::clock::init();
    // per-thread stacks of held locks (for "no lock held at a suspension point", C20)
    vmon::lockmon::install();
    // this monitor is sequential: a blocking acquisition of a lock the thread holds is reported, not waited for
    vmon::lockmon::self_deadlock_panics(true);
    let t0 = vmon::clock::real_mono_ns();
    let mut rep = Report::new();
    let mut proc_ = Proc { used: BTreeSet::new() };

    if let Some(path) = replay {
        let doc: Value = serde_json::from_str(&std::fs::read_to_string(&path).expect("read replay")).expect("json");
        let w = if doc.get("witness").is_some() { &doc["witness"] } else { &doc };
        if w["monitor"] == "l2mon-extras" {
            let p = doc["property"].as_str().unwrap_or("C03").to_string();
            extras_probe(&mut rep, &p, w["seed"].as_u64().unwrap_or(1));
            rep.write(&out);
            if rep.violations.is_empty() {
                println!("REPLAY: the probe ran to the end without a violation");
                std::process::exit(0);
            }
            println!("REPLAY: violation reproduced: {}", rep.violations[0]["what"]);
            std::process::exit(1);
        }
        let fids: Vec<u64> = w["group"].as_array().unwrap().iter().map(|x| x.as_u64().unwrap()).collect();
        let group: Vec<usize> = fids.iter().map(|fid| corpus::FUNCS.iter().position(|d| d.fid as u64 == *fid).expect("fid")).collect();
        let mut ops: Vec<Op> = w["ops"].as_array().unwrap().iter().map(op_from).collect();
        let mut n_actors = w["actors"].as_u64().unwrap() as usize;
        if single_actor {
            // counterfactual for C14: the same history with every call issued by one thread
            n_actors = 1;
            fn one_thread(o: &mut Op) {
                match o {
                    Op::Call { actor, .. } => *actor = 0,
                    Op::Nested { outer, inner, .. } => {
                        one_thread(outer);
                        if let Some(i) = inner {
                            one_thread(i);
                        }
                    }
                    _ => {}
                }
            }
            for o in ops.iter_mut() {
                one_thread(o);
            }
        }
        let hseed = w["seed"].as_u64().unwrap();
        let hid = w["hist"].as_u64().unwrap();
        let f = w["focus"].as_str().unwrap_or("all").to_string();
        let (ok, _) = run_history(&mut rep, &mut proc_, &group, n_actors, &f, hseed, hid, Some(ops), 0);
        rep.write(&out);
        if ok {
            println!("REPLAY: history ran to the end without a violation (note: registry state of the original process is not reproduced)");
            std::process::exit(0);
        }
        println!("REPLAY: violation reproduced: {}", rep.violations[0]["what"]);
        std::process::exit(1);
    }

    let cand: Vec<usize> = (0..corpus::FUNCS.len()).filter(|i| in_focus(&corpus::FUNCS[*i], &focus)).collect();
    if cand.is_empty() {
        rep.notes.push("no corpus function in focus".into());
        rep.write(&out);
        return;
    }
    // One history per function per process: a cache's statics are pristine when its history
    // starts, so nothing carries over from one history to the next.  The parent process of a
    // shard therefore runs `rounds` children (fresh processes), each covering this shard's
    // share of the functions once, and merges their reports.
    if rounds > 0 {
        let exe = std::env::current_exe().expect("current_exe");
        let mut failed = 0u64;
        for r in 0..rounds {
            let tmp = format!("{}.child{}", out, r);
            let st = std::process::Command::new(&exe)
                .args(["--out", &tmp, "--seed", &seed.to_string(), "--shard", &format!("{}/{}", shard.0, shard.1), "--tier", &tier, "--focus", &focus, "--round", &r.to_string()])
                .status();
            match (st, std::fs::read_to_string(&tmp)) {
                (Ok(s), Ok(txt)) if s.success() => {
                    if let Ok(v) = serde_json::from_str::<Value>(&txt) {
                        rep.absorb(&v);
                    } else {
                        failed += 1;
                    }
                }
                _ => failed += 1,
            }
            let _ = std::fs::remove_file(&tmp);
        }
        rep.count("L2", "child_processes", rounds);
        if failed > 0 {
            rep.count("L2", "child_processes_failed", failed);
            rep.inconclusive("L2", &format!("{} child processes did not produce a report", failed));
        }
        rep.count("C19", "corpus_functions_in_focus", if shard.0 == 0 { cand.len() as u64 } else { 0 });
        rep.notes.push(format!("l2mon shard {}/{} seed {} tier {} focus {} rounds {} wall {:.2}s", shard.0, shard.1, seed, tier, focus, rounds, (vmon::clock::real_mono_ns() - t0) as f64 / 1e9));
        rep.write(&out);
        if failed > 0 {
            std::process::exit(4);
        }
        return;
    }
    extras_probe(&mut rep, &focus, seed ^ (round << 8) ^ ((shard.0 as u64) << 40));
    let mut rng = Rng::new(seed.wrapping_mul(0x2545_F491_4F6C_DD1D) ^ (round << 20));
    // this round's permutation of the functions in focus (same in every shard), then this shard's share
    let mut perm = cand.clone();
    for i in (1..perm.len()).rev() {
        let j = rng.usize(i + 1);
        perm.swap(i, j);
    }
    let gmax = match focus.as_str() {
        "C12" => 6,
        "C13" | "C15" => 4,
        _ => 3,
    };
    let gmin = match focus.as_str() {
        "C12" => 3,
        "C13" | "C15" => 2,
        _ => 1,
    };
    // the members of a dependency chain ("chainK_src" <- "chainK_mid" <- "chainK_top") stay together
    let chain_of = |i: usize| -> Option<&'static str> {
        let n: &'static str = corpus::FUNCS[i].reg_name;
        if n.starts_with("chain") {
            n.split('_').next()
        } else {
            None
        }
    };
    {
        let mut p2: Vec<usize> = vec![];
        for &i in &perm {
            if p2.contains(&i) {
                continue;
            }
            p2.push(i);
            if let Some(c) = chain_of(i) {
                for &j in &perm {
                    if chain_of(j) == Some(c) && !p2.contains(&j) {
                        p2.push(j);
                    }
                }
            }
        }
        perm = p2;
    }
    let mut groups: Vec<Vec<usize>> = vec![];
    let mut i = 0;
    while i < perm.len() {
        let mut g = (gmin + rng.usize(gmax - gmin + 1)).min(perm.len() - i);
        match chain_of(perm[i]) {
            Some(c) => g = perm[i..].iter().take_while(|j| chain_of(**j) == Some(c)).count(),
            None => g = g.min(perm[i..].iter().take_while(|j| chain_of(**j).is_none()).count()).max(1),
        }
        groups.push(perm[i..i + g].to_vec());
        i += g;
    }
    let mut rng = Rng::new(seed.wrapping_mul(0x2545_F491_4F6C_DD1D) ^ ((shard.0 as u64) << 20) ^ (round << 40));
    let mut serial: u64 = ((shard.0 as u64) << 40) | (round << 48);
    for (gi, group) in groups.iter().enumerate() {
        if gi % shard.1 != shard.0 {
            continue;
        }
        let hist_id = gi as u64 + round * 1_000_003;
        let n_actors = match focus.as_str() {
            "C14" => 2 + rng.usize(3),
            _ => 1 + rng.usize(3),
        };
        let (_ok, s) = run_history(&mut rep, &mut proc_, group, n_actors, &focus, seed ^ (round << 32), hist_id, None, serial);
        serial = s;
    }
    rep.count("C19", "corpus_functions_in_focus", if shard.0 == 0 { cand.len() as u64 } else { 0 });
    rep.count("L2", "functions_used_in_this_process", proc_.used.len() as u64);
    rep.notes.push(format!("l2mon shard {}/{} seed {} tier {} focus {} wall {:.2}s", shard.0, shard.1, seed, tier, focus, (vmon::clock::real_mono_ns() - t0) as f64 / 1e9));
    rep.write(&out);
}
