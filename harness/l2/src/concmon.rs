//! concmon — concurrency monitor (C03, C14, C15, C17, C18): 2-16 threads run short programs of
//! cached calls, conditional / group invalidations and statistics queries on corpus functions
//! (real macro expansions), under
//!   * the serial randomised scheduler (deterministic; deadlock = no enabled thread), or
//!   * free-running jitter (real parallelism; deadlock = wait-for cycle with no progress).
//! Oracles: every call returns the twin's value; at quiescence the caches respect limit /
//! max_memory, contain only known keys, and every entry can still be evicted (FIFO/LRU),
//! expired and invalidated; hits + misses = lookups and misses = executions; no execution after
//! a storing call returned (unbounded caches); thread-scope functions follow their own
//! per-thread model under every interleaving.
//!
//! usage (parent): concmon --out F --mode serial|jitter --scenarios N [--seed S] [--shard I/N] [--focus Cxx]
//!       (child) : ... --from K --count N          (replay): concmon --replay FILE

use serde_json::{json, Value};
use std::collections::{BTreeMap, BTreeSet, HashMap};
use std::sync::{Arc, Mutex};
use vhooks::{Event, FnDesc};
use vmon::lockmon;
use vmon::model::{Belief, Cfg, Flavour, Key, Policy, Step};
use vmon::report::{hash64, hash_str, Report};
use vmon::rng::Rng;
use vmon::wrapper::{self, Plan, WrapDesc};

#[cfg(not(feature = "noclock"))]
vmon::install_virtual_clock!();

fn listing(name: &str) -> Option<Vec<String>> {
    let v = std::cell::RefCell::new(Vec::new());
    let ok = cachelito_core::invalidate_with(name, |k| {
        v.borrow_mut().push(k.to_string());
        false
    });
    if ok {
        Some(v.into_inner())
    } else {
        None
    }
}
fn cfg_of(d: &FnDesc) -> Cfg {
    Cfg { flavour: if d.is_async { Flavour::Async } else if d.scope_thread { Flavour::Thread } else { Flavour::Global }, policy: Policy::from_name(d.policy).unwrap(), limit: d.limit, ttl: d.ttl, max_memory: d.max_memory, fw: d.fw, age_exact: false }
}

#[derive(Clone, Debug)]
enum Op {
    /// `err`: the body (if it runs) returns Err with a unique value (Result functions only)
    /// `big`: the body returns a value whose size alone exceeds max_memory (never cached)
    Call { f: usize, slot: u32, err: bool, stale: bool, big: bool },
    InvWith { f: usize, slots: Vec<u32> },
    InvAllWith { pairs: Vec<(usize, Vec<u32>)> },
    Group { kind: u8, name: String },
    StatsGet { f: usize },
    StatsList,
    /// listing probe: records which keys the cache holds (never-matching invalidate_with predicate)
    List { f: usize },
    Advance(i64),
}
fn op_json(o: &Op) -> Value {
    match o {
        Op::Call { f, slot, err, stale, big } => json!({"call": f, "slot": slot, "err": err, "stale": stale, "big": big}),
        Op::InvWith { f, slots } => json!({"invalidate_with": f, "slots": slots}),
        Op::InvAllWith { pairs } => json!({"invalidate_all_with": pairs}),
        Op::Group { kind, name } => {
            let k = ["tag", "event", "dependency", "name"][*kind as usize];
            json!({"group": k, "name": name})
        }
        Op::StatsGet { f } => json!({"stats_get": f}),
        Op::StatsList => json!("stats_list"),
        Op::List { f } => json!({"list": f}),
        Op::Advance(ns) => json!({"advance_ns": ns}),
    }
}

struct FnCtx {
    d: &'static FnDesc,
    slots: Vec<u32>,
    keymap: BTreeMap<u32, String>,
    fp: BTreeMap<u32, usize>,
}

#[derive(Clone, Debug)]
struct CallRec {
    thread: usize,
    f: usize,
    slot: u32,
    inv: u64,
    ret: u64,
    executed: bool,
    /// the body ran and returned Err (scripted)
    ran_err: bool,
    ok_value: bool,
    /// value id returned (unique per execution in scenarios that script values)
    value: u64,
}

struct Scenario {
    index: u64,
    /// functions left "cold": not called before the concurrent phase, so that their first-use
    /// registration (stats / invalidation registries) happens concurrently with the other threads;
    /// a cold function is called by one thread only (std::sync::Once is not a scheduled lock)
    cold: Vec<bool>,
    /// operations run sequentially on the main thread after the warm-up, before the workers start
    prelude: Vec<Op>,
    fns: Vec<FnCtx>,
    progs: Vec<Vec<Op>>,
    /// a group invalidation (whole cache) targets this function somewhere in the scenario
    has_invalidation: Vec<bool>,
    /// slots some conditional invalidation of the scenario may remove, per function
    cond_slots: Vec<BTreeSet<u32>>,
}

fn pick_functions(rng: &mut Rng, focus: &str) -> Vec<&'static FnDesc> {
    // builds without the virtual clock (sanitizers) cannot steer time: no ttl functions there
    let no_ttl = cfg!(feature = "noclock");
    let cand: Vec<&'static FnDesc> = corpus::FUNCS
        .iter()
        .filter(|d| (!d.has_invalidate_on || focus == "C01") && !d.has_cache_if)
        .filter(|d| !(no_ttl && d.ttl.is_some()))
        .filter(|d| match focus {
            "C14" => true,
            "C03" => !d.scope_thread && d.ttl.is_none() && d.max_memory.is_none(),
            "C05" => !d.scope_thread && d.max_memory.is_some() && d.sized && d.limit.is_none() && d.ttl.is_none() && !d.has_cache_if && !d.has_invalidate_on && !d.is_result,
            "C01" => !d.scope_thread,
            "C13" => !d.scope_thread && d.ttl.is_none() && d.max_memory.is_none(),
            "C09" => !d.scope_thread && d.is_result && d.ttl.is_none() && d.max_memory.is_none(),
            "C07" => !d.scope_thread && d.limit.is_some() && d.ttl.is_none() && d.max_memory.is_none() && matches!(d.policy, "fifo" | "lru"),
            "C08" => !d.scope_thread && d.limit.is_some() && d.ttl.is_none() && d.max_memory.is_none() && matches!(d.policy, "lfu" | "arc" | "tlru"),
            "C17" | "C16" => !d.scope_thread && (d.limit.is_some() || d.ttl.is_some() || d.max_memory.is_some()),
            "C12" => !d.scope_thread && d.ttl.is_none() && !(d.tags.is_empty() && d.events.is_empty() && d.deps.is_empty()),
            _ => !d.scope_thread,
        })
        .collect();
    let n = match focus {
        "C14" => 1 + rng.usize(2),
        _ => 1 + rng.usize(3),
    };
    let mut v: Vec<&'static FnDesc> = vec![];
    // C14: at least one thread-scope function
    if focus == "C14" {
        let ts: Vec<&&FnDesc> = cand.iter().filter(|d| d.scope_thread && d.ttl.is_none()).collect();
        v.push(**rng.pick(&ts));
    }
    let mut guard = 0;
    while v.len() < n && guard < 100 {
        guard += 1;
        let d = *rng.pick(&cand);
        if d.scope_thread && d.ttl.is_some() {
            continue;
        }
        if !v.iter().any(|x| x.fid == d.fid) {
            v.push(d);
        }
    }
    v
}

fn gen_scenario(seed: u64, index: u64, focus: &str, jitter: bool) -> Scenario {
    let mut rng = Rng::new(seed.wrapping_mul(0xA24B_AED4_963E_E407) ^ index.wrapping_mul(0x9FB2_1C65_1E98_DF25));
    let mut ds = pick_functions(&mut rng, focus);
    // debugging / directed runs: VERIF_CONC_ONLY_FID=<fid> restricts the scenario to one function
    if let Some(fid) = std::env::var("VERIF_CONC_ONLY_FID").ok().and_then(|s| s.parse::<u32>().ok()) {
        ds = corpus::FUNCS.iter().filter(|d| d.fid == fid).collect();
    }
    let mut fns = vec![];
    for d in ds {
        let cap = d.limit.unwrap_or(2).min(5);
        // C03/C09: bounded caches take part with no more distinct keys than their limit, so that
        // nothing can be evicted and "computed once" still applies
        let n = if (matches!(focus, "C03" | "C09" | "C13") || (focus == "C14" && index % 2 == 0)) && d.limit.is_some() {
            cap.min(d.nslots as usize).max(1)
        } else if focus == "C05" {
            // enough distinct keys for real memory pressure (values are 40-100 bytes)
            (d.max_memory.unwrap_or(300) / 60 + 2 + rng.usize(3)).min(d.nslots as usize).min(40).max(1)
        } else {
            (cap + 1 + rng.usize(2)).min(d.nslots as usize).max(1)
        };
        let off = if d.nslots as usize > n + 8 { rng.usize(d.nslots as usize - n - 8) } else { 0 };
        fns.push(FnCtx { d, slots: (0..n).map(|i| (off + i) as u32).collect(), keymap: BTreeMap::new(), fp: BTreeMap::new() });
    }
    let nthreads = if jitter { 2 + rng.usize(7) } else { 2 + rng.usize(2) };
    let nops = if jitter { 30 + rng.usize(120) } else { 3 + rng.usize(6) };
    let shared: Vec<usize> = (0..fns.len()).filter(|i| !fns[*i].d.scope_thread).collect();
    let any_ttl = fns.iter().any(|f| f.d.ttl.is_some());
    let mut progs = vec![];
    let mut has_invalidation = vec![false; fns.len()];
    let mut cond_slots: Vec<BTreeSet<u32>> = vec![BTreeSet::new(); fns.len()];
    for _ in 0..nthreads {
        let mut p = vec![];
        for _ in 0..nops {
            let r = rng.usize(100);
            let f = rng.usize(fns.len());
            let (w_invw, w_invall, w_group, w_stats, w_adv) = match focus {
                "C03" | "C14" | "C09" | "C07" | "C08" | "C05" => (0, 0, 0, 2, 0),
                "C01" => (8, 3, 6, 2, if any_ttl { 5 } else { 0 }),
                "C13" => (22, 8, 0, 2, 0),
                "C15" => (6, 3, 5, 6, if any_ttl { 5 } else { 0 }),
                "C12" => (0, 0, 16, 26, 0),
                _ => (14, 6, 10, 5, if any_ttl { 5 } else { 0 }),
            };
            let mut acc = w_invw;
            if r < acc && !shared.is_empty() {
                let f = *rng.pick(&shared);
                let slots: Vec<u32> = fns[f].slots.iter().copied().filter(|_| rng.chance(1, 2)).collect();
                cond_slots[f].extend(slots.iter().copied());
                p.push(Op::InvWith { f, slots });
                continue;
            }
            acc += w_invall;
            if r < acc && !shared.is_empty() {
                let mut pairs = vec![];
                for f in &shared {
                    if rng.chance(2, 3) {
                        let slots: Vec<u32> = fns[*f].slots.iter().copied().filter(|_| rng.chance(1, 2)).collect();
                        cond_slots[*f].extend(slots.iter().copied());
                        pairs.push((*f, slots));
                    }
                }
                p.push(Op::InvAllWith { pairs });
                continue;
            }
            acc += w_group;
            if r < acc && !shared.is_empty() {
                let d = fns[*rng.pick(&shared)].d;
                let mut opts: Vec<(u8, String)> = vec![];
                opts.extend(d.tags.iter().map(|x| (0u8, x.to_string())));
                opts.extend(d.events.iter().map(|x| (1u8, x.to_string())));
                opts.extend(d.deps.iter().map(|x| (2u8, x.to_string())));
                opts.push((3u8, d.reg_name.to_string()));
                let (kind, name) = opts[rng.usize(opts.len())].clone();
                for (i, fc) in fns.iter().enumerate() {
                    let hit = match kind {
                        0 => fc.d.tags.contains(&name.as_str()),
                        1 => fc.d.events.contains(&name.as_str()),
                        2 => fc.d.deps.contains(&name.as_str()),
                        _ => fc.d.reg_name == name,
                    };
                    if hit {
                        has_invalidation[i] = true;
                    }
                }
                p.push(Op::Group { kind, name });
                continue;
            }
            acc += w_stats;
            if r < acc && !shared.is_empty() {
                p.push(if focus == "C12" { Op::List { f: *rng.pick(&shared) } } else if rng.chance(1, 3) { Op::StatsList } else { Op::StatsGet { f: *rng.pick(&shared) } });
                continue;
            }
            acc += w_adv;
            if r < acc {
                p.push(Op::Advance([250_000_000i64, 1_000_000_000, 500_000_000][rng.usize(3)]));
                continue;
            }
            let slot = fns[f].slots[rng.skewed(fns[f].slots.len())];
            let err = fns[f].d.is_result && rng.chance(1, 3);
            // invalidate_on verdict scripted per call (only functions that have one consult it)
            let stale = fns[f].d.has_invalidate_on && rng.chance(1, 3);
            let big = focus != "C05" && !err && fns[f].d.max_memory.is_some() && fns[f].d.sized && rng.chance(1, 7);
            p.push(Op::Call { f, slot, err, stale, big });
        }
        progs.push(p);
    }
    // template "expiry race": entries stored, clock moved to the expiry boundary, then several
    // threads look the same keys up at once (expired purge racing stores of the same key)
    let mut prelude = vec![];
    if let Some(fi) = (0..fns.len()).find(|i| fns[*i].d.ttl.map_or(false, vmon::model::ttl_reachable) && !fns[*i].d.scope_thread) {
        if index % 4 == 1 {
            let t = fns[fi].d.ttl.unwrap() as i64;
            let ss: Vec<u32> = fns[fi].slots.iter().copied().take(1 + rng.usize(2)).collect();
            for s in &ss {
                prelude.push(Op::Call { f: fi, slot: *s, err: false, stale: false, big: false });
            }
            prelude.push(Op::Advance(t * 1_000_000_000));
            // the threads only look keys up (no invalidation that would wipe the evidence)
            for p in progs.iter_mut() {
                let extra = rng.usize(3);
                let is_res = fns[fi].d.is_result;
                let mut q: Vec<Op> = ss.iter().map(|s| Op::Call { f: fi, slot: *s, err: is_res && rng.chance(1, 2), stale: false, big: false }).collect();
                if rng.chance(1, 2) {
                    q.reverse();
                }
                for _ in 0..extra {
                    let s = fns[fi].slots[rng.usize(fns[fi].slots.len())];
                    q.push(Op::Call { f: fi, slot: s, err: false, stale: false, big: false });
                }
                *p = q;
            }
            for h in has_invalidation.iter_mut() {
                *h = false;
            }
        }
    }
    // template "statistics hammer" (free-running mode): one entry that every thread keeps hitting
    // while another thread keeps reading the statistics; every snapshot must lie within what the
    // calls made so far allow (no miss for a lookup that hit, no hit lost, nothing negative)
    if jitter && focus == "C15" && prelude.is_empty() && index % 3 == 0 {
        if let Some(fi) = (0..fns.len()).find(|i| !fns[*i].d.scope_thread && !fns[*i].d.has_invalidate_on && !fns[*i].d.has_cache_if && !fns[*i].d.is_result && fns[*i].d.ttl.is_none()) {
            let s0 = fns[fi].slots[0];
            prelude.push(Op::Call { f: fi, slot: s0, err: false, stale: false, big: false });
            // (counted where the scenario runs)
            let hitters = 2 + rng.usize(3);
            progs = (0..hitters).map(|_| (0..1200).map(|_| Op::Call { f: fi, slot: s0, err: false, stale: false, big: false }).collect()).collect();
            progs.push((0..1500).map(|_| Op::StatsGet { f: fi }).collect());
            for h in has_invalidation.iter_mut() {
                *h = false;
            }
            for c in cond_slots.iter_mut() {
                c.clear();
            }
        }
    }
    let mut cold = vec![false; fns.len()];
    if prelude.is_empty() && matches!(focus, "C17" | "C18") && index % 3 == 2 {
        let ci = rng.usize(fns.len());
        if !fns[ci].d.scope_thread {
            cold[ci] = true;
            let owner = rng.usize(progs.len());
            for (ti, p) in progs.iter_mut().enumerate() {
                for op in p.iter_mut() {
                    if let Op::Call { f, .. } = op {
                        if *f == ci && ti != owner {
                            *op = Op::StatsList;
                        }
                    }
                }
            }
            // make sure the owner calls it, early
            let s = fns[ci].slots[0];
            if !progs[owner].is_empty() {
                let at = rng.usize(progs[owner].len().min(3));
                progs[owner][at] = Op::Call { f: ci, slot: s, err: false, stale: false, big: false };
            }
        }
    }
    Scenario { index, cold, prelude, fns, progs, has_invalidation, cond_slots }
}

fn norm_site(s: &str) -> String {
    if s.contains("gen.rs") {
        "<decorated fn / macro-generated callback>".to_string()
    } else {
        s.to_string()
    }
}

#[derive(Clone, Debug)]
struct ProbeRec {
    f: usize,
    ret: u64,
    keys: BTreeSet<String>,
}
#[derive(Clone, Debug)]
struct GroupRec {
    kind: u8,
    name: String,
    inv: u64,
    ret: u64,
}
/// one reading of a cache's statistics between two stamps
#[derive(Clone, Debug)]
struct StatsRec {
    f: usize,
    inv: u64,
    ret: u64,
    hits: u64,
    misses: u64,
}
struct Shared {
    stats: Mutex<Vec<StatsRec>>,
    probes: Mutex<Vec<ProbeRec>>,
    groups: Mutex<Vec<GroupRec>>,
    recs: Mutex<Vec<CallRec>>,
    viol: Mutex<Vec<(String, String, String, Value)>>,
}

/// runs on a worker thread
fn exec_prog(t: usize, prog: &[Op], fns: &[(&'static FnDesc, BTreeMap<u32, String>, Vec<u32>)], sh: &Shared, n_threads: usize, unique: bool) {
    // per-thread models for thread-scope functions (schedule-independent by definition)
    let mut beliefs: HashMap<usize, Belief> = HashMap::new();
    let _ = n_threads;
    for op in prog {
        lockmon::yield_here();
        match op {
            Op::Call { f, slot, err, stale, big } => {
                let d = fns[*f].0;
                vhooks::take_log();
                vhooks::disarm_exec();
                vhooks::arm_check(Some(*stale));
                let serial = vhooks::stamp() | (1 << 62);
                if *err {
                    vhooks::arm_exec(vhooks::ExecPlan { value: Some(serial), ok: false, len: None });
                } else if *big && !unique {
                    // deterministic value, but too large to be cached at all
                    vhooks::arm_exec(vhooks::ExecPlan { value: None, ok: true, len: Some(d.max_memory.unwrap_or(0) + 40) });
                } else if unique {
                    // every execution returns its own value: a served value identifies the store it came from
                    vhooks::arm_exec(vhooks::ExecPlan { value: Some(serial), ok: true, len: None });
                }
                vhooks::arm_pred(None);
                let inv = vhooks::stamp();
                let r = std::panic::catch_unwind(|| (d.call)(*slot));
                let ret = vhooks::stamp();
                let ev = vhooks::take_log();
                let executed = ev.iter().any(|e| matches!(e, Event::Exec { fid, .. } if *fid == d.fid));
                match r {
                    Err(_) => sh.viol.lock().unwrap().push(("C16".into(), format!("C16|CONC|{}|{}|panic-in-concurrent-call|", if d.is_async { "async" } else { "global" }, d.policy), format!("{} panicked under concurrency", d.fn_name), json!({"fid": d.fid}))),
                    Ok(co) => {
                        vhooks::disarm_exec();
                        vhooks::arm_check(None);
                        // an Err is never cached: a call that did not run the body must have been
                        // served the function's (Ok) value; one that ran an Err script returns it
                        let okv = if *err && executed {
                            co.value == serial && !co.ok
                        } else if unique {
                            // executed: its own value; served: checked against the set of produced values at quiescence
                            co.ok && (!executed || co.value == serial)
                        } else {
                            co.value == co.twin && co.ok
                        };
                        sh.recs.lock().unwrap().push(CallRec { thread: t, f: *f, slot: *slot, inv, ret, executed, ran_err: *err && executed && d.is_result, ok_value: okv, value: co.value });
                        if d.scope_thread {
                            let cfg = cfg_of(d);
                            let wd = WrapDesc { is_async: false, is_result: d.is_result, has_cache_if: false, has_invalidate_on: false };
                            let ran_err = *err && d.is_result;
                            let plan = Plan { value: if ran_err { serial } else { co.twin }, ok: !ran_err, fp: co.fp, pred: true, check: false };
                            let b = beliefs.entry(*f).or_insert_with(Belief::new);
                            let now = vmon::clock::now();
                            let step = b.advance(|s| {
                                let outs = wrapper::call(&cfg, &wd, s, *slot as Key, now, &plan);
                                let ok: Vec<_> = outs.iter().filter(|o| o.executed == executed && o.value == co.value).map(|o| o.state.clone()).collect();
                                (ok, vec![])
                            });
                            if let Step::Empty { .. } = step {
                                sh.viol.lock().unwrap().push(("C14".into(), format!("C14|CONC|thread|{}|thread-scope-depends-on-other-threads|", d.policy), format!("thread {}: {} (scope=\"thread\") slot {} executed={} is not what a model fed only this thread's calls allows", t, d.fn_name, slot, executed), json!({"fid": d.fid, "attrs": d.attr_text})));
                                beliefs.remove(f);
                            }
                        }
                    }
                }
            }
            Op::InvWith { f, slots } => {
                let strs: BTreeSet<&String> = slots.iter().filter_map(|s| fns[*f].1.get(s)).collect();
                cachelito_core::invalidate_with(fns[*f].0.reg_name, |k| strs.iter().any(|s| s.as_str() == k));
            }
            Op::InvAllWith { pairs } => {
                let mut want: HashMap<&str, BTreeSet<&String>> = HashMap::new();
                for (f, slots) in pairs {
                    want.insert(fns[*f].0.reg_name, slots.iter().filter_map(|s| fns[*f].1.get(s)).collect());
                }
                cachelito_core::invalidate_all_with(|name, key| want.get(name).map_or(false, |s| s.iter().any(|x| x.as_str() == key)));
            }
            Op::Group { kind, name } => {
                let inv = vhooks::stamp();
                match kind {
                    0 => cachelito_core::invalidate_by_tag(name),
                    1 => cachelito_core::invalidate_by_event(name),
                    2 => cachelito_core::invalidate_by_dependency(name),
                    _ => cachelito_core::invalidate_cache(name) as usize,
                };
                let ret = vhooks::stamp();
                sh.groups.lock().unwrap().push(GroupRec { kind: *kind, name: name.clone(), inv, ret });
            }
            Op::List { f } => {
                let keys: BTreeSet<String> = listing(fns[*f].0.reg_name).unwrap_or_default().into_iter().collect();
                let ret = vhooks::stamp();
                sh.probes.lock().unwrap().push(ProbeRec { f: *f, ret, keys });
            }
            Op::StatsGet { f } => {
                let inv = vhooks::stamp();
                let st = cachelito_core::stats_registry::get(fns[*f].0.reg_name);
                let snap = st.map(|s| (s.hits(), s.misses()));
                let ret = vhooks::stamp();
                if let Some((hits, misses)) = snap {
                    sh.stats.lock().unwrap().push(StatsRec { f: *f, inv, ret, hits, misses });
                }
            }
            Op::StatsList => {
                let _ = cachelito_core::stats_registry::list();
            }
            Op::Advance(ns) => vmon::clock::advance(*ns),
        }
    }
    lockmon::yield_here();
}

fn body_hook(_fid: u32, _digest: u64) {
    lockmon::yield_here();
}
fn clone_hook() {
    lockmon::yield_here();
}

struct Outcome {
    /// "ok", "deadlock", "stuck"
    status: &'static str,
}

fn scenario_witness(sc: &Scenario, seed: u64, mode: &str, switch_pm: u64, detail: Value) -> Value {
    json!({"monitor": "concmon", "mode": mode, "seed": seed, "scenario": sc.index, "switch_pm": switch_pm,
        "functions": sc.fns.iter().map(|f| json!({"fid": f.d.fid, "attrs": f.d.attr_text, "slots": f.slots})).collect::<Vec<_>>(),
        "cold_functions": sc.cold,
        "prelude": sc.prelude.iter().map(op_json).collect::<Vec<_>>(),
        "programs": sc.progs.iter().map(|p| p.iter().map(op_json).collect::<Vec<_>>()).collect::<Vec<_>>(),
        "detail": detail})
}

fn run_scenario(rep: &mut Report, sc: &mut Scenario, seed: u64, mode: &str, focus: &str) -> Outcome {
    vmon::clock::init();
    let sched_seed = seed ^ sc.index.wrapping_mul(0x2545_F491_4F6C_DD1D);
    let switch_pm = [1000u64, 1000, 400, 150, 60][(sc.index % 5) as usize];
    // two of three schedules use the coarse strategy (baton moves only at cachelito-level events)
    let coarse = (sc.index / 5) % 3 != 0;
    // ---- warm-up on the main thread: registers everything (Once/Lazy are not scheduled),
    //      learns key strings and footprints, leaves the caches empty with zeroed statistics
    let cold = sc.cold.clone();
    for (fi, fc) in sc.fns.iter_mut().enumerate() {
        let d = fc.d;
        if cold[fi] {
            rep.count("C17", "scenarios_with_a_first_use_registration_in_the_concurrent_phase", 1);
            continue;
        }
        if d.scope_thread {
            // one call on the main thread: whatever first-use initialisation the expansion
            // performs (none is expected for thread scope) happens outside the scheduled phase
            vhooks::disarm_exec();
            let _ = (d.call)(fc.slots[0]);
            vhooks::take_log();
            continue;
        }
        cachelito_core::invalidate_with(d.reg_name, |_| true);
        let mut known: BTreeSet<String> = listing(d.reg_name).unwrap_or_default().into_iter().collect();
        for s in fc.slots.clone() {
            vhooks::disarm_exec();
            let co = (d.call)(s);
            fc.fp.insert(s, co.fp);
            let now: BTreeSet<String> = listing(d.reg_name).unwrap_or_default().into_iter().collect();
            let fresh: Vec<&String> = now.difference(&known).collect();
            if fresh.len() == 1 {
                fc.keymap.insert(s, fresh[0].clone());
            }
            known = now;
            // keep the warm-up itself from overflowing: empty the cache after every call
            cachelito_core::invalidate_with(d.reg_name, |_| true);
            known.clear();
        }
        cachelito_core::stats_registry::reset(d.reg_name);
        vhooks::take_log();
    }
    if sc.prelude.iter().any(|o| matches!(o, Op::Advance(_))) {
        rep.count("C18", "expiry_race_scenarios", 1);
        if sc.fns.iter().any(|f| f.d.is_async && f.d.ttl.is_some() && f.d.limit.is_some() && matches!(f.d.policy, "fifo" | "lru")) {
            rep.count("C18", "expiry_race_scenarios_async_fifo_lru_limit", 1);
        }
    }
    for op in &sc.prelude {
        match op {
            Op::Call { f, slot, .. } => {
                vhooks::disarm_exec();
                let _ = (sc.fns[*f].d.call)(*slot);
            }
            Op::Advance(ns) => vmon::clock::advance(*ns),
            _ => {}
        }
    }
    for fc in sc.fns.iter() {
        if !fc.d.scope_thread {
            cachelito_core::stats_registry::reset(fc.d.reg_name);
        }
    }
    vhooks::take_log();
    let fnsv: Arc<Vec<(&'static FnDesc, BTreeMap<u32, String>, Vec<u32>)>> = Arc::new(sc.fns.iter().map(|f| (f.d, f.keymap.clone(), f.slots.clone())).collect());
    let shared = Arc::new(Shared { stats: Mutex::new(vec![]), probes: Mutex::new(vec![]), groups: Mutex::new(vec![]), recs: Mutex::new(vec![]), viol: Mutex::new(vec![]) });
    let nthreads = sc.progs.len();
    let mut progs: Vec<Box<dyn FnOnce() + Send + 'static>> = vec![];
    for (t, p) in sc.progs.iter().enumerate() {
        let p = p.clone();
        let fnsv = fnsv.clone();
        let sh = shared.clone();
        let unique = focus == "C12" || focus == "C01";
        progs.push(Box::new(move || exec_prog(t, &p, &fnsv, &sh, nthreads, unique)));
    }
    let unique_values = focus == "C12" || focus == "C01";
    rep.count("CONC", "schedules", 1);
    rep.count("CONC", &format!("schedules_{}", mode), 1);
    let (deadlock, stuck, trace_hash, steps, switches, edges) = if mode == "serial" {
        let o = lockmon::run_serial(sched_seed, switch_pm, coarse, progs);
        (o.deadlock, o.stuck, o.trace_hash, o.steps, o.switches, o.edges)
    } else {
        let o = lockmon::run_jitter(sched_seed, 1 + sc.index % 3, 400, progs);
        (o.deadlock, o.stuck, o.trace_hash, o.events, 0, BTreeSet::new())
    };
    rep.count("CONC", "scheduling_points", steps);
    rep.count("CONC", "context_switches", switches);
    let fn_hash = hash64(&sc.fns.iter().map(|f| f.d.fid as u64).collect::<Vec<_>>());
    // distinct = (functions, programs, observed interleaving); the scenario number is not part of it
    let prog_hash = hash_str(&format!("{:?}", sc.progs.iter().map(|p| p.iter().map(op_json).collect::<Vec<_>>()).collect::<Vec<_>>()));
    for p in ["C17", "C18", "C03", "C14", "C15"] {
        if p == focus || focus == "all" {
            rep.distinct(p, hash64(&[fn_hash, prog_hash, trace_hash]));
        }
    }
    for (a, b) in &edges {
        rep.distinct("LOCK_ORDER_EDGES", hash_str(&format!("{}>{}", norm_site(a), norm_site(b))));
    }
    if let Some(d) = deadlock {
        let mut d2 = d.clone();
        for t in d2.threads.iter_mut() {
            t.3 = norm_site(&t.3);
            for h in t.4.iter_mut() {
                h.2 = norm_site(&h.2);
            }
        }
        let flav = if sc.fns.iter().any(|f| f.d.is_async) && sc.fns.iter().any(|f| !f.d.is_async) { "mixed" } else if sc.fns.iter().any(|f| f.d.is_async) { "async" } else { "global" };
        let sig = format!("C17|CONC|{}|{}|deadlock|{}", flav, mode, d2.signature());
        rep.violation("C17", &sig, &format!("deadlock: {}", d2.signature()), scenario_witness(sc, seed, mode, switch_pm, d.to_json()));
        return Outcome { status: "deadlock" };
    }
    if stuck {
        rep.inconclusive("C17", "workers made no progress and no wait-for cycle was found (watchdog)");
        return Outcome { status: "stuck" };
    }
    rep.count("C17", "schedules_completed_without_deadlock", 1);
    // ---- quiescence
    let recs = shared.recs.lock().unwrap().clone();
    let stats_recs = shared.stats.lock().unwrap().clone();
    for (p, sg, what, det) in shared.viol.lock().unwrap().drain(..) {
        rep.violation(&p, &sg, &what, scenario_witness(sc, seed, mode, switch_pm, det));
    }
    rep.count("CONC", "calls", recs.len() as u64);
    if std::env::var("VERIF_CONC_DEBUG").is_ok() {
        eprintln!("scenario {} prelude {:?}", sc.index, sc.prelude.iter().map(op_json).collect::<Vec<_>>());
        for (i, p) in sc.progs.iter().enumerate() {
            eprintln!("  T{}: {:?}", i, p.iter().map(op_json).map(|v| v.to_string()).collect::<Vec<_>>());
        }
        let mut r2 = recs.clone();
        r2.sort_by_key(|r| r.inv);
        for r in &r2 {
            eprintln!("  call T{} f{} slot {} inv {} ret {} executed {}", r.thread, r.f, r.slot, r.inv, r.ret, r.executed);
        }
        for f in &sc.fns {
            eprintln!("  listing {:?} = {:?}", f.d.reg_name, listing(f.d.reg_name));
        }
    }
    let mut fail = |rep: &mut Report, p: &str, kind: &str, f: &FnCtx, what: String, det: Value| {
        let sig = format!("{}|CONC|{}|{}|{}|{}", p, if f.d.is_async { "async" } else if f.d.scope_thread { "thread" } else { "global" }, f.d.policy, kind, mode);
        rep.violation(p, &sig, &what, scenario_witness(sc, seed, mode, switch_pm, det));
    };
    // values (C18)
    for r in &recs {
        rep.count("C18", "concurrent_call_values_checked", 1);
        if !r.ok_value {
            let f = &sc.fns[r.f];
            fail(rep, "C18", "wrong-value-under-concurrency", f, format!("{} slot {} returned a value different from the undecorated function", f.d.fn_name, r.slot), json!({"fid": f.d.fid}));
            return Outcome { status: "ok" };
        }
    }
    for (fi, f) in sc.fns.iter().enumerate() {
        let d = f.d;
        if d.scope_thread {
            rep.count("C14", "thread_scope_functions_checked_per_thread", 1);
            continue;
        }
        if sc.cold[fi] {
            // no key strings were learned for it: only values (above) and deadlock freedom apply
            cachelito_core::invalidate_with(d.reg_name, |_| true);
            continue;
        }
        let calls: Vec<&CallRec> = recs.iter().filter(|r| r.f == fi).collect();
        // C15 while the threads run: a snapshot read between two stamps counts every lookup that
        // returned before the first and none invoked after the second; a lookup is a miss exactly
        // if its body ran (functions with invalidate_on aside: a stale hit runs the body too)
        if !d.has_invalidate_on {
            for s in stats_recs.iter().filter(|s| s.f == fi) {
                rep.count("C15", "statistics_snapshots_checked_during_concurrency", 1);
                let lb_m = calls.iter().filter(|r| r.executed && r.ret < s.inv).count() as u64;
                let ub_m = calls.iter().filter(|r| r.executed && r.inv < s.ret).count() as u64;
                let lb_h = calls.iter().filter(|r| !r.executed && r.ret < s.inv).count() as u64;
                let ub_h = calls.iter().filter(|r| !r.executed && r.inv < s.ret).count() as u64;
                if s.misses < lb_m || s.misses > ub_m || s.hits < lb_h || s.hits > ub_h {
                    fail(rep, "C15", "statistics-snapshot-outside-what-the-calls-allow", f, format!("{}: a reader saw hits {} (possible {}..={}) and misses {} (possible {}..={}) while other threads were calling", d.reg_name, s.hits, lb_h, ub_h, s.misses, lb_m, ub_m), json!({"fid": d.fid}));
                    return Outcome { status: "ok" };
                }
            }
        }
        // C15 conservation
        if let (Some(st), false) = (cachelito_core::stats_registry::get(d.reg_name), d.has_invalidate_on) {
            let execs = calls.iter().filter(|r| r.executed).count() as u64;
            rep.count("C15", "conservation_checks_at_quiescence", 1);
            if st.hits() + st.misses() != calls.len() as u64 || st.misses() != execs {
                fail(rep, "C15", "conservation-at-quiescence", f, format!("{}: hits {} + misses {} vs {} completed lookups; misses vs {} executions", d.reg_name, st.hits(), st.misses(), calls.len(), execs), json!({"fid": d.fid}));
                return Outcome { status: "ok" };
            }
        }
        // C03 / C14 shared visibility: no execution after a storing call returned (unbounded, never invalidated)
        let never_evicts = d.limit.map_or(true, |n| f.slots.len() <= n);
        if never_evicts && d.ttl.is_none() && d.max_memory.is_none() && !sc.has_invalidation[fi] && !d.has_invalidate_on {
            // slots that a conditional invalidation of this scenario may remove are exempt; for
            // all other slots an entry, once stored, must stay (C13: "keep the rest")
            for c in calls.iter().filter(|r| r.executed && !sc.cond_slots[fi].contains(&r.slot)) {
                rep.count("C03", "executions_checked_against_history", 1);
                if d.is_result {
                    rep.count("C09", "executions_checked_against_history", 1);
                }
                // an Err outcome stores nothing; any execution that returned Ok (or a non-Result value) did
                if let Some(prev) = calls.iter().find(|p| p.executed && !p.ran_err && p.slot == c.slot && p.ret < c.inv) {
                    let p = if prev.thread != c.thread { "C14" } else { "C03" };
                    let p = if focus == "C03" { "C03" } else if d.is_result && (focus == "C09" || calls.iter().any(|x| x.ran_err && x.slot == c.slot)) { "C09" } else { p };
                    // the function was the target of conditional invalidations that did not select this key
                    let p = if !sc.cond_slots[fi].is_empty() && matches!(focus, "C13" | "C18" | "C17") { "C13" } else { p };
                    fail(rep, p, "executed-after-a-storing-call-returned", f, format!("{} slot {}: thread {} executed the body (invoked at {}) although thread {}'s executing call had returned at {}", d.fn_name, c.slot, c.thread, c.inv, prev.thread, prev.ret), json!({"fid": d.fid}));
                    return Outcome { status: "ok" };
                }
            }
        }
        // C01 under concurrency (values unique per execution): "once the value stored for some
        // arguments has been replaced the old value is never served again" - a call must not be
        // served value v if another execution for the same key, which started after v's own
        // execution had returned, stored its (different) value and returned before the call began
        if focus == "C01" {
            for c in calls.iter().filter(|c| !c.executed) {
                match calls.iter().find(|e| e.executed && e.slot == c.slot && e.value == c.value) {
                    None => {
                        fail(rep, "C01", "served-value-nobody-produced", f, format!("{} slot {}: served value {:x} was produced by no execution for that key", d.reg_name, c.slot, c.value), json!({"fid": d.fid}));
                        return Outcome { status: "ok" };
                    }
                    Some(e1) => {
                        rep.count("C01", "served_values_checked_against_history", 1);
                        if let Some(e2) = calls.iter().find(|e2| e2.executed && !e2.ran_err && e2.slot == c.slot && e2.value != c.value && e1.ret < e2.inv && e2.ret < c.inv) {
                            fail(rep, "C01", "replaced-value-served-again", f, format!("{} slot {}: thread {} was served value {:x} (call invoked at {}) although a later execution (thread {}, {}..{}) had stored {:x} after the execution that produced the served value had returned at {}", d.reg_name, c.slot, c.thread, c.value, c.inv, e2.thread, e2.inv, e2.ret, e2.value, e1.ret), json!({"fid": d.fid, "attrs": d.attr_text}));
                            return Outcome { status: "ok" };
                        }
                    }
                }
            }
        }
        // C12 under concurrency (values unique per execution): a value that was in the cache before
        // a matching group invalidation began - it was served by a call that returned before, or
        // its producing execution returned before - must not be served once the invalidation has
        // returned.  (An execution stores once; a value seen before cannot be stored again later.)
        if focus == "C12" && d.ttl.is_none() {
            let groups = shared.groups.lock().unwrap().clone();
            // served values must come from some execution of the same key
            for c in calls.iter().filter(|c| !c.executed) {
                if !calls.iter().any(|e| e.executed && e.slot == c.slot && e.value == c.value) {
                    fail(rep, "C18", "served-value-nobody-produced", f, format!("{} slot {}: served value {:x} was produced by no execution for that key", d.reg_name, c.slot, c.value), json!({"fid": d.fid}));
                    return Outcome { status: "ok" };
                }
            }
            for x in groups.iter().filter(|x| match x.kind {
                0 => d.tags.contains(&x.name.as_str()),
                1 => d.events.contains(&x.name.as_str()),
                2 => d.deps.contains(&x.name.as_str()),
                _ => d.reg_name == x.name && !(d.tags.is_empty() && d.events.is_empty() && d.deps.is_empty()),
            }) {
                rep.count("C12", "concurrent_group_invalidations_checked", 1);
                for after in calls.iter().filter(|c| !c.executed && c.inv > x.ret) {
                    let v = after.value;
                    let seen_before = calls.iter().any(|b| b.slot == after.slot && b.value == v && b.ret < x.inv);
                    if seen_before {
                        fail(rep, "C12", "entry-from-before-the-invalidation-served", f, format!("{}: thread {} was served value {:x} for slot {} (call invoked at {}) after the matching invalidation {:?} had returned at {}; the same value had already been returned by a call that finished before the invalidation began at {}", d.reg_name, after.thread, v, after.slot, after.inv, x.name, x.ret, x.inv), json!({"fid": d.fid}));
                        return Outcome { status: "ok" };
                    }
                }
            }
        }
        // C18 bounds at quiescence
        let l = listing(d.reg_name).unwrap_or_default();
        let rev: HashMap<&String, u32> = f.keymap.iter().map(|(k, v)| (v, *k)).collect();
        rep.count("C18", "quiescent_states_checked", 1);
        if let Some(n) = d.limit {
            if l.len() > n {
                fail(rep, "C18", "limit-exceeded-at-quiescence", f, format!("{} holds {} entries at quiescence, limit {}", d.reg_name, l.len(), n), json!({"fid": d.fid, "listing": l}));
                return Outcome { status: "ok" };
            }
        }
        let mut bytes = 0usize;
        for k in &l {
            match rev.get(k) {
                Some(s) => bytes += f.fp.get(s).copied().unwrap_or(0),
                None => {
                    fail(rep, "C18", "unknown-key-at-quiescence", f, format!("{} lists key {:?} nobody stored", d.reg_name, k), json!({"fid": d.fid, "keymap": f.keymap, "listing": l}));
                    return Outcome { status: "ok" };
                }
            }
        }
        if let Some(m) = d.max_memory {
            if bytes > m {
                fail(rep, "C18", "memory-exceeded-at-quiescence", f, format!("{} holds {} bytes at quiescence, max_memory {}", d.reg_name, bytes, m), json!({"fid": d.fid}));
                return Outcome { status: "ok" };
            }
        }
        // C05 under concurrency: "never evicts while it already fits".  With nothing but plain
        // stores in play (no limit, ttl, invalidation, predicate, oversized or failing result) the
        // content only grows after the last eviction, so it plus *some* evicted value (the last
        // one to go, whichever it was) must exceed max_memory - under every serialisation.
        if let (Some(m), true) = (d.max_memory, d.limit.is_none() && d.ttl.is_none() && !d.has_cache_if && !d.has_invalidate_on && !sc.has_invalidation[fi] && sc.cond_slots[fi].is_empty() && !unique_values) {
            let plain = calls.iter().all(|r| !r.ran_err) && !sc.progs.iter().flatten().any(|o| matches!(o, Op::Call { f: ff, big: true, .. } if *ff == fi));
            if plain {
                let stored: BTreeSet<u32> = calls.iter().filter(|r| r.executed).map(|r| r.slot).collect();
                let listed: BTreeSet<u32> = l.iter().filter_map(|k| rev.get(k).copied()).collect();
                let gone: Vec<u32> = stored.difference(&listed).copied().collect();
                rep.count("C05", "quiescent_memory_minimality_checks", 1);
                if let Some(biggest) = gone.iter().filter_map(|s| f.fp.get(s)).max() {
                    if bytes + biggest <= m {
                        fail(rep, "C05", "evicted-although-everything-fits-under-concurrency", f, format!("{}: {} bytes cached at quiescence, slots {:?} were stored and are gone although the largest of them ({} bytes) would still fit under max_memory {}", d.reg_name, bytes, gone, biggest, m), json!({"fid": d.fid}));
                        return Outcome { status: "ok" };
                    }
                }
            }
        }
        // probe 1 (limit): fresh stores one at a time.  (a) FIFO/LRU: enough of them must push out
        // every old entry; (b) the order in which old entries leave must not contradict the
        // completed calls of the concurrent phase: under LRU an entry whose last use finished
        // before another entry's last use began must leave first (FIFO: same with stores); under
        // LFU/ARC/TLRU (no ttl) an entry that certainly has hits must not leave while an entry (or,
        // in the sync caches, the zero-hit newcomer) that certainly has none stays; (c) the limit
        // must hold throughout.
        if let Some(n) = d.limit {
            let old: BTreeSet<String> = l.iter().cloned().collect();
            let fresh: Vec<u32> = (0..d.nslots).filter(|s| !f.slots.contains(s)).take(n.min(64) + old.len() + 1).collect();
            let ordered_ok = d.ttl.is_none() && d.max_memory.is_none() && !sc.has_invalidation[fi] && sc.prelude.is_empty();
            // per old key: interval of its last use / last store, and whether it certainly has (no) hits
            let mut last_use: HashMap<&String, (u64, u64)> = HashMap::new();
            let mut last_store: HashMap<&String, (u64, u64)> = HashMap::new();
            let mut sure_hits: HashMap<&String, bool> = HashMap::new();
            let mut sure_nohits: HashMap<&String, bool> = HashMap::new();
            for k in &old {
                if let Some(s) = rev.get(k) {
                    let cs: Vec<&&CallRec> = calls.iter().filter(|r| r.slot == *s).collect();
                    if let Some(lu) = cs.iter().max_by_key(|r| r.inv) {
                        // the "last use" is unambiguous only if no other call on the key overlaps it
                        if cs.iter().all(|r| r.inv == lu.inv || r.ret < lu.inv) {
                            last_use.insert(k, (lu.inv, lu.ret));
                        }
                    }
                    let stores: Vec<&&&CallRec> = cs.iter().filter(|r| r.executed && !r.ran_err).collect();
                    if let Some(ls) = stores.iter().max_by_key(|r| r.inv) {
                        if stores.iter().all(|r| r.inv == ls.inv || r.ret < ls.inv) {
                            last_store.insert(k, (ls.inv, ls.ret));
                            let served_after = cs.iter().filter(|r| !r.executed && r.inv > ls.ret).count();
                            let served_maybe = cs.iter().filter(|r| !r.executed && r.ret > ls.inv).count();
                            sure_hits.insert(k, served_after > 0);
                            sure_nohits.insert(k, served_maybe == 0);
                        }
                    }
                }
            }
            if n.checked_add(old.len() + 1) == Some(fresh.len()) {
                let mut cur: BTreeSet<String> = old.clone();
                for s in &fresh {
                    let co = (d.call)(*s);
                    if co.value != co.twin {
                        fail(rep, "C18", "wrong-value-in-probe", f, "probe call returned a wrong value".into(), json!({"fid": d.fid}));
                        return Outcome { status: "ok" };
                    }
                    let now_l: BTreeSet<String> = listing(d.reg_name).unwrap_or_default().into_iter().collect();
                    if now_l.len() > n {
                        fail(rep, "C18", "limit-exceeded-in-probe", f, format!("{} holds {} entries during the eviction probe, limit {}", d.reg_name, now_l.len(), n), json!({"fid": d.fid, "listing": now_l}));
                        return Outcome { status: "ok" };
                    }
                    let victims: Vec<&String> = cur.iter().filter(|k| old.contains(*k) && !now_l.contains(*k)).collect();
                    if ordered_ok {
                        for v in &victims {
                            let stay: Vec<&String> = now_l.iter().filter(|k| old.contains(*k)).collect();
                            match d.policy {
                                "lru" | "fifo" => {
                                    let tbl = if d.policy == "lru" { &last_use } else { &last_store };
                                    rep.count("C07", "eviction_order_checks_after_concurrency", 1);
                                    if let Some((vi, _)) = tbl.get(*v) {
                                        if let Some(u) = stay.iter().find(|u| tbl.get(**u).map_or(false, |(_, ur)| ur < vi)) {
                                            fail(rep, "C07", if d.policy == "lru" { "lru-victim-contradicts-completed-uses" } else { "fifo-victim-contradicts-completed-stores" }, f, format!("{}: {:?} was evicted while {:?} stayed, although the last {} of the latter had returned before that of the former was invoked", d.reg_name, v, u, if d.policy == "lru" { "use" } else { "store" }), json!({"fid": d.fid}));
                                            return Outcome { status: "ok" };
                                        }
                                    }
                                }
                                "lfu" | "arc" | "tlru" => {
                                    rep.count("C08", "eviction_popularity_checks_after_concurrency", 1);
                                    if sure_hits.get(*v).copied().unwrap_or(false) {
                                        // sync caches: the newcomer itself has no hits and competes
                                        let zero_candidate = !d.is_async || (d.policy == "lfu" && stay.iter().any(|u| sure_nohits.get(*u).copied().unwrap_or(false)));
                                        if zero_candidate {
                                            fail(rep, "C08", "popular-entry-evicted-before-unused-one", f, format!("{}: {:?} was served from the cache after its last store and was evicted although an entry without any hit was available under {}", d.reg_name, v, d.policy), json!({"fid": d.fid}));
                                            return Outcome { status: "ok" };
                                        }
                                    }
                                }
                                _ => {}
                            }
                        }
                    }
                    cur = now_l;
                }
                rep.count("C18", "eviction_probes", 1);
                if matches!(d.policy, "fifo" | "lru") && d.ttl.is_none() {
                    let survivors: Vec<&String> = cur.iter().filter(|k| old.contains(*k)).collect();
                    if !survivors.is_empty() {
                        fail(rep, "C18", "entry-cannot-be-evicted", f, format!("{}: {:?} survived {} fresh stores under {} with limit {}", d.reg_name, survivors, fresh.len(), d.policy, n), json!({"fid": d.fid}));
                        return Outcome { status: "ok" };
                    }
                }
            }
        }
        // probe 2 (ttl): after ttl seconds every listed entry must be recomputed
        if let Some(t) = d.ttl.filter(|t| vmon::model::ttl_reachable(*t)) {
            let l2 = listing(d.reg_name).unwrap_or_default();
            vmon::clock::advance(t as i64 * 1_000_000_000);
            let revs: HashMap<&String, u32> = f.keymap.iter().map(|(k, v)| (v, *k)).collect();
            for k in &l2 {
                if let Some(s) = revs.get(k) {
                    vhooks::take_log();
                    let co = (d.call)(*s);
                    let executed = vhooks::take_log().iter().any(|e| matches!(e, Event::Exec { .. }));
                    rep.count("C18", "expiry_probes", 1);
                    if !executed || co.value != co.twin {
                        fail(rep, "C18", "entry-cannot-expire", f, format!("{}: entry {:?} still served {} s after quiescence (ttl {})", d.reg_name, k, t, t), json!({"fid": d.fid}));
                        return Outcome { status: "ok" };
                    }
                }
            }
        }
        // probe 3: invalidate everything
        cachelito_core::invalidate_with(d.reg_name, |_| true);
        let after = listing(d.reg_name).unwrap_or_default();
        rep.count("C18", "invalidation_probes", 1);
        if !after.is_empty() {
            fail(rep, "C18", "entry-cannot-be-invalidated", f, format!("{}: {:?} survived invalidate_with(always true)", d.reg_name, after), json!({"fid": d.fid}));
            return Outcome { status: "ok" };
        }
        // probe 4: short sequential history: values and bounds
        let mut r2 = Rng::new(sched_seed ^ 0x55);
        for _ in 0..(2 * f.slots.len() + 2) {
            let s = f.slots[r2.usize(f.slots.len())];
            let co = (d.call)(s);
            let l = listing(d.reg_name).unwrap_or_default();
            rep.count("C18", "sequential_probe_calls", 1);
            let by: usize = l.iter().filter_map(|k| rev.get(k)).filter_map(|s| f.fp.get(s)).sum();
            if co.value != co.twin || d.limit.map_or(false, |n| l.len() > n) || d.max_memory.map_or(false, |m| by > m) {
                fail(rep, "C18", "sequential-use-after-concurrency", f, format!("{}: sequential probe after the concurrent phase: value ok={}, {} entries (limit {:?}), {} bytes (max {:?})", d.reg_name, co.value == co.twin, l.len(), d.limit, by, d.max_memory), json!({"fid": d.fid}));
                return Outcome { status: "ok" };
            }
        }
        cachelito_core::invalidate_with(d.reg_name, |_| true);
    }
    if sc.index % 997 == 3 {
        let s = json!({"mode": mode, "functions": sc.fns.iter().map(|f| f.d.attr_text).collect::<Vec<_>>(), "programs": sc.progs.iter().map(|p| p.iter().take(12).map(op_json).collect::<Vec<_>>()).collect::<Vec<_>>(), "scheduling_points": steps, "context_switches": switches, "verdict": "completed; quiescence checks and probes passed"});
        for p in ["C03", "C14", "C15", "C17", "C18"] {
            rep.sample(p, s.clone(), 2);
        }
    }
    Outcome { status: "ok" }
}

/// see l2mon: names that only declare metadata (never a used cache)
/// C08 under real concurrency: eight free-running threads hit one resident of an async LFU cache
/// 160 000 times in all while nothing else happens, then the other resident is hit 140 000 times,
/// then a third key is stored.  Hit counts are exact (each is taken under the entry's exclusive
/// guard), so the first resident has the most successful lookups and must stay.
#[cachelito_async::cache_async(limit = 2, policy = "lfu")]
async fn hammer_lfu(a: u32) -> u64 {
    a as u64 + 1
}
fn popularity_hammer(rep: &mut Report) {
    for round in 0..3u32 {
        let (a, b, c) = (1001 + round * 10_000, 2002 + round * 10_000, 3003 + round * 10_000);
        vhooks::block_on(hammer_lfu(a));
        cachelito_core::invalidate_with("hammer_lfu", |_| true);
        vhooks::block_on(hammer_lfu(a));
        vhooks::block_on(hammer_lfu(b));
        std::thread::scope(|s| {
            for _ in 0..8 {
                s.spawn(move || {
                    for _ in 0..20_000 {
                        vhooks::block_on(hammer_lfu(a));
                    }
                });
            }
        });
        for _ in 0..140_000 {
            vhooks::block_on(hammer_lfu(b));
        }
        vhooks::block_on(hammer_lfu(c));
        rep.count("C08", "free_running_popularity_hammer_rounds", 1);
        rep.count("C08", "free_running_popularity_hammer_lookups", 300_000);
        let l = listing("hammer_lfu").unwrap_or_default();
        let has = |x: u32| l.iter().any(|k| k.contains(&x.to_string()));
        if !(has(a) && has(c)) || l.len() != 2 {
            rep.violation("C08", "C08|CONC|async|lfu|entry-with-most-concurrent-hits-evicted|free", &format!("hammer_lfu: after 160000 concurrent hits of {} and 140000 hits of {}, storing {} left {:?} in the cache (the entry with the fewest successful lookups is {})", a, b, c, l, b), json!({"monitor": "concmon-hammer", "round": round, "listing": l}));
            return;
        }
    }
}

fn register_unused_names() {
    let all = |v: &[&str]| v.iter().map(|s| s.to_string()).collect::<Vec<_>>();
    for i in 0..6 {
        cachelito_core::InvalidationRegistry::global().register(
            &format!("declared_only_{}", i),
            cachelito_core::InvalidationMetadata::new(
                all(&["t_user", "t_geo", "t_cfg", "shared_a", "shared_b", "t_conc"]),
                all(&["e_upd", "e_del", "shared_a", "shared_c"]),
                all(&["d_db", "d_idx", "shared_b", "shared_c"]),
            ),
        );
    }
}

fn main() {
    register_unused_names();
    let args: Vec<String> = std::env::args().collect();
    let mut out = String::from("/dev/stdout");
    let mut seed = vmon::rng::seed_from_env();
    let mut shard = (0usize, 1usize);
    let mut focus = String::from("C17");
    let mut mode = String::from("serial");
    let mut scenarios = 0u64;
    let mut from = 0u64;
    let mut count = 0u64;
    let mut replay: Option<String> = None;
    let mut i = 1;
    while i < args.len() {
        let nx = args.get(i + 1).cloned().unwrap_or_default();
        match args[i].as_str() {
            "--out" => out = nx,
            "--seed" => seed = nx.parse().unwrap(),
            "--shard" => {
                let p: Vec<usize> = nx.split('/').map(|x| x.parse().unwrap()).collect();
                shard = (p[0], p[1]);
            }
            "--focus" => focus = nx,
            "--mode" => mode = nx,
            "--scenarios" => scenarios = nx.parse().unwrap(),
            "--from" => from = nx.parse().unwrap(),
            "--count" => count = nx.parse().unwrap(),
            "--replay" => replay = Some(nx),
            _ => {
                i += 1;
                continue;
            }
        }
        i += 2;
    }
    std::panic::set_hook(Box::new(|_| {}));
    vmon::clock::init();
    let t0 = vmon::clock::real_mono_ns();
    let mut rep = Report::new();

    if let Some(path) = replay {
        let doc: Value = serde_json::from_str(&std::fs::read_to_string(&path).expect("read")).expect("json");
        let w = if doc.get("witness").is_some() { &doc["witness"] } else { &doc };
        let m = w["mode"].as_str().unwrap_or("serial").to_string();
        let s = w["seed"].as_u64().unwrap();
        let idx = w["scenario"].as_u64().unwrap();
        let f = doc["property"].as_str().unwrap_or("C17").to_string();
        lockmon::install();
        vhooks::set_body_hook(body_hook);
        vhooks::set_clone_hook(clone_hook);
        let f2 = if doc.get("base_property").is_some() { doc["base_property"].as_str().unwrap().to_string() } else { f };
        let mut sc = gen_scenario(s, idx, &f2, m == "jitter");
        let o = run_scenario(&mut rep, &mut sc, s, &m, &f2);
        rep.write(&out);
        if rep.violations.is_empty() {
            println!("REPLAY: scenario {} ({}) completed without a violation (status {})", idx, m, o.status);
            std::process::exit(0);
        }
        println!("REPLAY: violation reproduced: {}", rep.violations[0]["what"]);
        std::process::exit(1);
    }

    if scenarios > 0 && focus == "C08" && shard.0 == 0 && mode == "serial" {
        popularity_hammer(&mut rep);
    }
    if scenarios > 0 {
        // parent: children run ranges of scenarios; a child that diagnoses a deadlock cannot
        // continue (its workers hold real locks) and exits with status 3 after writing its report
        let exe = std::env::current_exe().expect("exe");
        let mut next = 0u64;
        let mut children = 0u64;
        let mut failed = 0u64;
        while next < scenarios {
            let tmp = format!("{}.child", out);
            let _ = std::fs::remove_file(&tmp);
            let mut child = std::process::Command::new(&exe)
                .args(["--out", &tmp, "--seed", &seed.to_string(), "--shard", &format!("{}/{}", shard.0, shard.1), "--focus", &focus, "--mode", &mode, "--from", &next.to_string(), "--count", &(scenarios - next).to_string()])
                .spawn()
                .expect("spawn child");
            children += 1;
            // real-time watchdog (inconclusive, never a verdict)
            let start = vmon::clock::real_mono_ns();
            let status = loop {
                match child.try_wait() {
                    Ok(Some(s)) => break Some(s),
                    Ok(None) => {
                        if vmon::clock::real_mono_ns() - start > 600_000_000_000 {
                            let _ = child.kill();
                            let _ = child.wait();
                            break None;
                        }
                        vmon::clock::real_sleep_us(2000);
                    }
                    Err(_) => break None,
                }
            };
            let txt = std::fs::read_to_string(&tmp).ok();
            let _ = std::fs::remove_file(&tmp);
            let v: Option<Value> = txt.and_then(|t| serde_json::from_str(&t).ok());
            match (status, v) {
                (Some(_), Some(v)) => {
                    rep.absorb(&v);
                    let done = v["counters"]["CONC"]["next_scenario"].as_u64().unwrap_or(scenarios);
                    next = done.max(next + 1);
                }
                _ => {
                    failed += 1;
                    rep.inconclusive("CONC", "a child process was killed by the watchdog or wrote no report");
                    next += 1;
                    if failed > 5 {
                        break;
                    }
                }
            }
        }
        rep.count("CONC", "child_processes", children);
        // next_scenario counters were summed by absorb: meaningless in the parent
        if let Some(c) = rep.counters.get_mut("CONC") {
            c.remove("next_scenario");
        }
        rep.notes.push(format!("concmon shard {}/{} seed {} mode {} focus {} scenarios {} wall {:.2}s", shard.0, shard.1, seed, mode, focus, scenarios, (vmon::clock::real_mono_ns() - t0) as f64 / 1e9));
        rep.write(&out);
        std::process::exit(if failed > 0 { 4 } else { 0 });
    }

    // child
    lockmon::install();
    vhooks::set_body_hook(body_hook);
    vhooks::set_clone_hook(clone_hook);
    let mut k = from;
    let mut code = 0;
    // A function is used by at most one scenario per process: its caches are pristine when the
    // scenario starts (queue entries left behind by an earlier concurrent phase - which the
    // property tolerates - would otherwise blur the warm-up and the probes).
    let mut used: BTreeSet<u32> = BTreeSet::new();
    while k < from + count {
        let index = k * shard.1 as u64 + shard.0 as u64;
        let mut sc = gen_scenario(seed, index, &focus, mode == "jitter");
        if sc.fns.iter().any(|f| used.contains(&f.d.fid)) {
            break;
        }
        used.extend(sc.fns.iter().map(|f| f.d.fid));
        let nv = rep.violations.len();
        let o = run_scenario(&mut rep, &mut sc, seed, &mode, &focus);
        k += 1;
        // after a deadlock the workers hold real locks; after any other violation the caches
        // of this process may be corrupted: in both cases continue in a fresh process
        if o.status != "ok" || rep.violations.len() != nv || rep.counters.get("C18").and_then(|c| c.get("violations_seen")).copied().unwrap_or(0) + rep.counters.get("C17").and_then(|c| c.get("violations_seen")).copied().unwrap_or(0) > 0 {
            code = 3;
            break;
        }
    }
    rep.count("CONC", "next_scenario", k);
    rep.write(&out);
    // leave without running destructors: after a deadlock worker threads still hold locks
    std::process::exit(code);
}
