//! Generated corpus of decorated functions (see /verif/tools/gen_corpus.py).
pub mod gen;
pub use gen::FUNCS;
pub use gen::{big_footprint, ExtraDesc, BIGM_BOUND, EXTRAS};
