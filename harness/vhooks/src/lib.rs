//! vhooks — the tiny, stable interface between generated corpus functions (whose bodies we own)
//! and the monitors.  Nothing here touches cachelito.
//!
//! * `enter(fid, digest)`  — called as the first statement of every decorated body: records an
//!   execution event and returns what the body must produce (value id, Ok/Err, payload length).
//! * `pred` / `check`       — bodies of generated `cache_if` / `invalidate_on` functions: log the
//!   invocation (key string, value digest) and return a verdict armed by the harness.
//! * `Dg`                   — structural digest of argument tuples (independent of `Debug`).
//! * `Footprint`            — independent implementation of "inline size + owned heap capacity".
//! * `Gate`                 — a future that stays `Pending` until the harness opens it (C20).

use std::cell::RefCell;
use std::sync::atomic::{AtomicBool, AtomicU64, AtomicUsize, Ordering};

// ------------------------------------------------------------------------------------------
// global stamp: one monotone counter for all events of all threads
// ------------------------------------------------------------------------------------------
static STAMP: AtomicU64 = AtomicU64::new(1);

#[inline]
pub fn stamp() -> u64 {
    STAMP.fetch_add(1, Ordering::SeqCst)
}

// ------------------------------------------------------------------------------------------
// events
// ------------------------------------------------------------------------------------------
#[derive(Clone, Debug, PartialEq)]
pub enum Event {
    /// a decorated body started executing
    Exec { stamp: u64, fid: u32, digest: u64, value: u64 },
    /// a cache_if predicate was consulted
    Pred { stamp: u64, fid: u32, key: String, vdig: u64, verdict: bool },
    /// an invalidate_on check was consulted
    Check { stamp: u64, fid: u32, key: String, vdig: u64, verdict: bool },
}

/// What the next execution of a body on this thread must produce.
#[derive(Clone, Copy, Debug)]
pub struct ExecPlan {
    pub value: Option<u64>,
    pub ok: bool,
    pub len: Option<usize>,
}

/// Marker that starts the message of the panic with which a scripted body fails.
pub const SCRIPTED_BODY_PANIC: &str = "VERIF-SCRIPTED-BODY-PANIC";

/// Something the next executing body of function `at_fid` on this thread does before it
/// returns: re-entrancy (the body calls another decorated function — possibly itself with other
/// arguments — like a recursive memoised function does) or a panic of the user's own code.
#[derive(Clone, Copy)]
pub struct NestedPlan {
    pub at_fid: u32,
    /// the decorated call made from inside the body
    pub call: Option<(fn(u32) -> CallOut, u32)>,
    pub plan: Option<ExecPlan>,
    pub pred: Option<bool>,
    pub check: Option<bool>,
    /// the body panics (after the nested call, if any)
    pub panic: bool,
}
/// What the nested call did: its result (or the text of its panic) and its own events.
pub struct NestedOut {
    pub out: Option<Result<CallOut, String>>,
    pub events: Vec<Event>,
    pub panicked_body: bool,
}

/// What `enter` hands to the body.
#[derive(Clone, Copy, Debug)]
pub struct Exec {
    pub value: u64,
    pub ok: bool,
    pub len: usize,
}

#[derive(Default)]
struct Tl {
    plan: Option<ExecPlan>,
    pred: Option<bool>,
    check: Option<bool>,
    log: Vec<Event>,
    nested: Option<NestedPlan>,
    nested_out: Option<NestedOut>,
}

thread_local! {
    static TL: RefCell<Tl> = RefCell::new(Tl::default());
}

/// A hook the concurrency monitors may install; called at the start and end of every body
/// (`phase` 0 = entering, 1 = leaving-soon) so that a scheduler can switch threads *inside* the
/// window between lookup and store.
static BODY_HOOK: AtomicUsize = AtomicUsize::new(0);
pub type BodyHook = fn(fid: u32, digest: u64);

pub fn set_body_hook(f: BodyHook) {
    BODY_HOOK.store(f as usize, Ordering::SeqCst);
}

/// A hook called when a corpus value type is cloned (the caches clone the stored value while
/// holding their map lock): lets a scheduler suspend a thread *inside* a read-side critical section.
static CLONE_HOOK: AtomicUsize = AtomicUsize::new(0);
pub fn set_clone_hook(f: fn()) {
    CLONE_HOOK.store(f as usize, Ordering::SeqCst);
}
#[inline]
pub fn clone_point() {
    let h = CLONE_HOOK.load(Ordering::Relaxed);
    if h != 0 {
        let f: fn() = unsafe { std::mem::transmute::<usize, fn()>(h) };
        f();
    }
}

pub fn arm_exec(p: ExecPlan) {
    TL.with(|t| t.borrow_mut().plan = Some(p));
}
pub fn disarm_exec() {
    TL.with(|t| t.borrow_mut().plan = None);
}
pub fn arm_pred(v: Option<bool>) {
    TL.with(|t| t.borrow_mut().pred = v);
}
pub fn arm_check(v: Option<bool>) {
    TL.with(|t| t.borrow_mut().check = v);
}
pub fn arm_nested(p: Option<NestedPlan>) {
    TL.with(|t| {
        let mut t = t.borrow_mut();
        t.nested = p;
        t.nested_out = None;
    });
}
pub fn take_nested() -> Option<NestedOut> {
    TL.with(|t| t.borrow_mut().nested_out.take())
}
fn panic_text(p: Box<dyn std::any::Any + Send>) -> String {
    if let Some(s) = p.downcast_ref::<&str>() {
        s.to_string()
    } else if let Some(s) = p.downcast_ref::<String>() {
        s.clone()
    } else {
        "non-string panic".into()
    }
}
pub fn take_log() -> Vec<Event> {
    TL.with(|t| std::mem::take(&mut t.borrow_mut().log))
}
pub fn log_len() -> usize {
    TL.with(|t| t.borrow().log.len())
}

/// value of the deterministic function `fid` on arguments with digest `digest`
#[inline]
pub fn mix(fid: u32, digest: u64) -> u64 {
    let mut x = digest ^ ((fid as u64).wrapping_mul(0x9E37_79B9_7F4A_7C15));
    x ^= x >> 30;
    x = x.wrapping_mul(0xBF58_476D_1CE4_E5B9);
    x ^= x >> 27;
    x = x.wrapping_mul(0x94D0_49BB_1331_11EB);
    x ^= x >> 31;
    x
}

/// default payload length of function `fid` on `digest` (deterministic; 16..=79)
#[inline]
pub fn default_len(fid: u32, digest: u64) -> usize {
    16 + (mix(fid ^ 0x5bd1, digest) % 64) as usize
}

/// First statement of every decorated body.
pub fn enter(fid: u32, digest: u64) -> Exec {
    let plan = TL.with(|t| t.borrow_mut().plan.take());
    let ex = match plan {
        Some(p) => Exec {
            value: p.value.unwrap_or_else(|| mix(fid, digest)),
            ok: p.ok,
            len: p.len.unwrap_or_else(|| default_len(fid, digest)),
        },
        None => Exec { value: mix(fid, digest), ok: true, len: default_len(fid, digest) },
    };
    let st = stamp();
    TL.with(|t| t.borrow_mut().log.push(Event::Exec { stamp: st, fid, digest, value: ex.value }));
    let h = BODY_HOOK.load(Ordering::Relaxed);
    if h != 0 {
        let f: BodyHook = unsafe { std::mem::transmute::<usize, BodyHook>(h) };
        f(fid, digest);
    }
    let np = TL.with(|t| {
        let mut t = t.borrow_mut();
        if t.nested.map_or(false, |n| n.at_fid == fid) {
            t.nested.take()
        } else {
            None
        }
    });
    if let Some(np) = np {
        let mut no = NestedOut { out: None, events: vec![], panicked_body: np.panic };
        if let Some((call, slot)) = np.call {
            // the nested call has its own script and its own event log
            let (o_pred, o_check, o_log) = TL.with(|t| {
                let mut t = t.borrow_mut();
                let saved = (t.pred, t.check, std::mem::take(&mut t.log));
                t.plan = np.plan;
                t.pred = np.pred;
                t.check = np.check;
                saved
            });
            let r = std::panic::catch_unwind(move || call(slot));
            TL.with(|t| {
                let mut t = t.borrow_mut();
                no.events = std::mem::replace(&mut t.log, o_log);
                t.plan = None;
                t.pred = o_pred;
                t.check = o_check;
            });
            no.out = Some(r.map_err(panic_text));
        }
        TL.with(|t| t.borrow_mut().nested_out = Some(no));
        if np.panic {
            panic!("{} in the body of function {}", SCRIPTED_BODY_PANIC, fid);
        }
    }
    ex
}

/// What the undecorated twin computes (no event, no plan).
pub fn twin(fid: u32, digest: u64) -> Exec {
    Exec { value: mix(fid, digest), ok: true, len: default_len(fid, digest) }
}

/// Body of a generated cache_if function.  Default verdict (nothing armed): accept.
pub fn pred(fid: u32, key: &str, vdig: u64) -> bool {
    let verdict = TL.with(|t| t.borrow().pred).unwrap_or(true);
    let st = stamp();
    TL.with(|t| {
        t.borrow_mut().log.push(Event::Pred { stamp: st, fid, key: key.to_string(), vdig, verdict })
    });
    verdict
}

/// Body of a generated invalidate_on function.  Default verdict (nothing armed): not stale.
pub fn check(fid: u32, key: &str, vdig: u64) -> bool {
    let verdict = TL.with(|t| t.borrow().check).unwrap_or(false);
    let st = stamp();
    TL.with(|t| {
        t.borrow_mut().log.push(Event::Check { stamp: st, fid, key: key.to_string(), vdig, verdict })
    });
    verdict
}

// ------------------------------------------------------------------------------------------
// payload builders: every return kind embeds the u64 value id so the harness can decode it
// ------------------------------------------------------------------------------------------
pub fn mk_string(value: u64, len: usize) -> String {
    let len = len.max(16);
    let mut s = String::with_capacity(len);
    s.push_str(&format!("{:016x}", value));
    while s.len() < len {
        s.push('x');
    }
    debug_assert_eq!(s.len(), len);
    s
}
pub fn rd_string(s: &str) -> u64 {
    u64::from_str_radix(&s[..16], 16).unwrap_or(u64::MAX)
}
pub fn mk_bytes(value: u64, len: usize) -> Vec<u8> {
    let len = len.max(8);
    let mut v = Vec::with_capacity(len);
    v.extend_from_slice(&value.to_le_bytes());
    v.resize(len, 0xAB);
    v
}
pub fn rd_bytes(v: &[u8]) -> u64 {
    let mut b = [0u8; 8];
    b.copy_from_slice(&v[..8]);
    u64::from_le_bytes(b)
}

// ------------------------------------------------------------------------------------------
// structural digest
// ------------------------------------------------------------------------------------------
pub struct Hs(pub u64);
impl Hs {
    #[inline]
    pub fn new() -> Self {
        Hs(0xcbf2_9ce4_8422_2325)
    }
    #[inline]
    pub fn byte(&mut self, b: u8) {
        self.0 ^= b as u64;
        self.0 = self.0.wrapping_mul(0x0000_0100_0000_01B3);
    }
    #[inline]
    pub fn bytes(&mut self, bs: &[u8]) {
        for &b in bs {
            self.byte(b);
        }
    }
    #[inline]
    pub fn u64(&mut self, x: u64) {
        self.bytes(&x.to_le_bytes());
    }
}
pub trait Dg {
    fn dg(&self, h: &mut Hs);
}
macro_rules! dg_int { ($($t:ty => $tag:expr),*) => { $(impl Dg for $t { #[inline] fn dg(&self, h: &mut Hs) { h.byte($tag); h.bytes(&(*self as i128).to_le_bytes()); } })* } }
dg_int!(u8=>1,u16=>2,u32=>3,u64=>4,usize=>5,i8=>6,i16=>7,i32=>8,i64=>9,isize=>10,i128=>11);
impl Dg for u128 {
    fn dg(&self, h: &mut Hs) {
        h.byte(12);
        h.bytes(&self.to_le_bytes());
    }
}
impl Dg for bool {
    fn dg(&self, h: &mut Hs) {
        h.byte(13);
        h.byte(*self as u8);
    }
}
impl Dg for char {
    fn dg(&self, h: &mut Hs) {
        h.byte(14);
        h.u64(*self as u64);
    }
}
impl Dg for f32 {
    fn dg(&self, h: &mut Hs) {
        h.byte(15);
        h.u64(self.to_bits() as u64);
    }
}
impl Dg for f64 {
    fn dg(&self, h: &mut Hs) {
        h.byte(16);
        h.u64(self.to_bits());
    }
}
impl Dg for str {
    fn dg(&self, h: &mut Hs) {
        h.byte(17);
        h.u64(self.len() as u64);
        h.bytes(self.as_bytes());
    }
}
impl Dg for String {
    fn dg(&self, h: &mut Hs) {
        self.as_str().dg(h)
    }
}
impl<T: Dg + ?Sized> Dg for &T {
    fn dg(&self, h: &mut Hs) {
        (**self).dg(h)
    }
}
impl<T: Dg + ?Sized> Dg for &mut T {
    fn dg(&self, h: &mut Hs) {
        (**self).dg(h)
    }
}
impl<T: Dg> Dg for Option<T> {
    fn dg(&self, h: &mut Hs) {
        match self {
            None => h.byte(18),
            Some(x) => {
                h.byte(19);
                x.dg(h)
            }
        }
    }
}
impl<T: Dg> Dg for [T] {
    fn dg(&self, h: &mut Hs) {
        h.byte(20);
        h.u64(self.len() as u64);
        for x in self {
            x.dg(h)
        }
    }
}
impl<T: Dg> Dg for Vec<T> {
    fn dg(&self, h: &mut Hs) {
        self.as_slice().dg(h)
    }
}
impl<T: Dg + ?Sized> Dg for Box<T> {
    fn dg(&self, h: &mut Hs) {
        (**self).dg(h)
    }
}
impl<T: Dg, E: Dg> Dg for Result<T, E> {
    fn dg(&self, h: &mut Hs) {
        match self {
            Ok(x) => {
                h.byte(21);
                x.dg(h)
            }
            Err(e) => {
                h.byte(22);
                e.dg(h)
            }
        }
    }
}
impl Dg for () {
    fn dg(&self, h: &mut Hs) {
        h.byte(23)
    }
}
macro_rules! dg_tuple { ($tag:expr; $($n:ident),+) => { impl<$($n: Dg),+> Dg for ($($n,)+) { #[allow(non_snake_case)] fn dg(&self, h: &mut Hs) { h.byte($tag); let ($($n,)+) = self; $($n.dg(h);)+ } } } }
dg_tuple!(31; A);
dg_tuple!(32; A, B);
dg_tuple!(33; A, B, C);
dg_tuple!(34; A, B, C, D);
dg_tuple!(35; A, B, C, D, E);
dg_tuple!(36; A, B, C, D, E, F);

pub fn dg<T: Dg + ?Sized>(x: &T) -> u64 {
    let mut h = Hs::new();
    x.dg(&mut h);
    h.0
}

// ------------------------------------------------------------------------------------------
// footprint oracle: inline size plus owned heap capacity, recursively
// (written from the property statement, not from cachelito's MemoryEstimator)
// ------------------------------------------------------------------------------------------
pub trait Footprint: Sized {
    /// heap bytes owned beyond the inline `size_of::<Self>()`
    fn heap(&self) -> usize;
    fn footprint(&self) -> usize {
        std::mem::size_of::<Self>() + self.heap()
    }
}
macro_rules! fp_plain { ($($t:ty),*) => { $(impl Footprint for $t { #[inline] fn heap(&self) -> usize { 0 } })* } }
fp_plain!(u8, u16, u32, u64, u128, usize, i8, i16, i32, i64, i128, isize, f32, f64, bool, char, ());
impl Footprint for String {
    fn heap(&self) -> usize {
        self.capacity()
    }
}
impl<T: Footprint> Footprint for Vec<T> {
    fn heap(&self) -> usize {
        self.capacity() * std::mem::size_of::<T>() + self.iter().map(|e| e.heap()).sum::<usize>()
    }
}
impl<T: Footprint> Footprint for Option<T> {
    fn heap(&self) -> usize {
        self.as_ref().map_or(0, |v| v.heap())
    }
}
impl<T: Footprint, E: Footprint> Footprint for Result<T, E> {
    fn heap(&self) -> usize {
        match self {
            Ok(v) => v.heap(),
            Err(e) => e.heap(),
        }
    }
}
impl<T: Footprint> Footprint for Box<T> {
    fn heap(&self) -> usize {
        (**self).footprint()
    }
}
impl<A: Footprint, B: Footprint> Footprint for (A, B) {
    fn heap(&self) -> usize {
        self.0.heap() + self.1.heap()
    }
}
impl<A: Footprint, B: Footprint, C: Footprint> Footprint for (A, B, C) {
    fn heap(&self) -> usize {
        self.0.heap() + self.1.heap() + self.2.heap()
    }
}

// ------------------------------------------------------------------------------------------
// gates: await points the harness opens one at a time (C20)
// ------------------------------------------------------------------------------------------
// Number of gate passages currently permitted, per thread (manual polling happens on one thread).
thread_local! {
    static GATE_PERMITS: RefCell<u64> = RefCell::new(0);
    static GATE_ALWAYS_OPEN: RefCell<bool> = RefCell::new(true);
}
/// when false, every `Gate` returns Pending until a permit is granted
pub fn gates_closed(closed: bool) {
    GATE_ALWAYS_OPEN.with(|g| *g.borrow_mut() = !closed);
    GATE_PERMITS.with(|g| *g.borrow_mut() = 0);
}
pub fn gate_permit(n: u64) {
    GATE_PERMITS.with(|g| *g.borrow_mut() += n);
}
pub struct Gate;
impl std::future::Future for Gate {
    type Output = ();
    fn poll(self: std::pin::Pin<&mut Self>, cx: &mut std::task::Context<'_>) -> std::task::Poll<()> {
        if GATE_ALWAYS_OPEN.with(|g| *g.borrow()) {
            return std::task::Poll::Ready(());
        }
        let ok = GATE_PERMITS.with(|g| {
            let mut g = g.borrow_mut();
            if *g > 0 {
                *g -= 1;
                true
            } else {
                false
            }
        });
        if ok {
            std::task::Poll::Ready(())
        } else {
            cx.waker().wake_by_ref();
            std::task::Poll::Pending
        }
    }
}
pub fn gate() -> Gate {
    Gate
}

/// a future that yields once to the executor (Pending on first poll, Ready on the second)
pub struct YieldOnce(bool);
impl std::future::Future for YieldOnce {
    type Output = ();
    fn poll(mut self: std::pin::Pin<&mut Self>, cx: &mut std::task::Context<'_>) -> std::task::Poll<()> {
        if self.0 {
            std::task::Poll::Ready(())
        } else {
            self.0 = true;
            cx.waker().wake_by_ref();
            std::task::Poll::Pending
        }
    }
}
pub fn yield_once() -> YieldOnce {
    YieldOnce(false)
}

// ------------------------------------------------------------------------------------------
// minimal executor (futures-macro is not available offline)
// ------------------------------------------------------------------------------------------
struct NoopWake(AtomicBool);
impl std::task::Wake for NoopWake {
    fn wake(self: std::sync::Arc<Self>) {
        self.0.store(true, Ordering::SeqCst);
    }
}
pub fn noop_waker() -> std::task::Waker {
    std::task::Waker::from(std::sync::Arc::new(NoopWake(AtomicBool::new(false))))
}
/// Busy-polling block_on: bodies in the corpus never wait on anything external.
pub fn block_on<F: std::future::Future>(f: F) -> F::Output {
    let mut f = std::pin::pin!(f);
    let w = noop_waker();
    let mut cx = std::task::Context::from_waker(&w);
    let mut spins = 0u64;
    loop {
        if let std::task::Poll::Ready(v) = f.as_mut().poll(&mut cx) {
            return v;
        }
        spins += 1;
        if spins > 1_000_000 {
            panic!("vhooks::block_on: future still pending after 1e6 polls (closed gate?)");
        }
        std::thread::yield_now();
    }
}

// ------------------------------------------------------------------------------------------
// corpus interface
// ------------------------------------------------------------------------------------------
/// What one call of a corpus function looked like from outside.
#[derive(Clone, Copy, Debug, PartialEq)]
pub struct CallOut {
    /// value id decoded from the returned value
    pub value: u64,
    /// false iff the function returned Err
    pub ok: bool,
    /// oracle footprint of the returned value
    pub fp: usize,
    /// structural digest of the returned value
    pub rdig: u64,
    /// what the undecorated twin returns for the same arguments (value id)
    pub twin: u64,
}

pub type BoxFut = std::pin::Pin<Box<dyn std::future::Future<Output = CallOut>>>;

/// The generator's own record of what it wrote for each corpus function — computed by
/// tools/gen_corpus.py, independent of cachelito's attribute parser.
pub struct FnDesc {
    pub fid: u32,
    pub fn_name: &'static str,
    /// name under which statistics and invalidation are registered
    pub reg_name: &'static str,
    pub is_async: bool,
    pub scope_thread: bool,
    pub policy: &'static str,
    pub limit: Option<usize>,
    pub ttl: Option<u64>,
    pub max_memory: Option<usize>,
    pub fw: Option<f64>,
    pub ret_kind: &'static str,
    pub is_result: bool,
    /// payload length is meaningful for this return kind
    pub sized: bool,
    pub has_cache_if: bool,
    pub has_invalidate_on: bool,
    pub tags: &'static [&'static str],
    pub events: &'static [&'static str],
    pub deps: &'static [&'static str],
    /// number of distinct argument tuples the slot mapping can produce
    pub nslots: u32,
    /// await points in the body (async only)
    pub gates: u32,
    pub receiver: &'static str,
    pub nargs: u32,
    pub attr_text: &'static str,
    pub call: fn(u32) -> CallOut,
    pub digest: fn(u32) -> u64,
    pub fut: Option<fn(u32) -> BoxFut>,
}
