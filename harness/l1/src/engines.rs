//! The three real cache engines behind one interface, with harness-owned storage so the whole
//! store (keys, values, hit counters, queue) can be read after every operation (channel L1).

use crate::val::Val;
use cachelito_core::{AsyncGlobalCache, CacheEntry, CacheStats, EvictionPolicy, GlobalCache, ThreadLocalCache};
use dashmap::DashMap;
use once_cell::sync::Lazy;
use parking_lot::{Mutex, RwLock};
use std::cell::RefCell;
use std::collections::{BTreeMap, HashMap, VecDeque};
use vmon::model::{Cfg, Flavour, Policy};

pub struct Snap {
    /// key -> (value id, hit counter as kept by the engine, oracle footprint)
    pub ents: BTreeMap<String, (u64, u64, usize)>,
    pub queue: Vec<String>,
}

pub trait Engine {
    fn get(&self, k: &str) -> Option<Val>;
    fn put(&self, k: &str, v: Val);
    fn snap(&self) -> Snap;
    fn stats(&self) -> (u64, u64);
}

pub fn policy_of(p: Policy) -> EvictionPolicy {
    match p {
        Policy::Fifo => EvictionPolicy::FIFO,
        Policy::Lru => EvictionPolicy::LRU,
        Policy::Lfu => EvictionPolicy::LFU,
        Policy::Arc => EvictionPolicy::ARC,
        Policy::Random => EvictionPolicy::Random,
        Policy::Tlru => EvictionPolicy::TLRU,
    }
}

// ---------------------------------------------------------------- global
static G_MAP: Lazy<RwLock<HashMap<String, CacheEntry<Val>>>> = Lazy::new(|| RwLock::new(HashMap::new()));
static G_ORDER: Lazy<Mutex<VecDeque<String>>> = Lazy::new(|| Mutex::new(VecDeque::new()));
static G_STATS: Lazy<CacheStats> = Lazy::new(CacheStats::new);

pub struct GlobalEng {
    c: GlobalCache<Val>,
    mem: bool,
}
impl GlobalEng {
    pub fn new(cfg: &Cfg) -> Self {
        G_MAP.write().clear();
        G_ORDER.lock().clear();
        G_STATS.reset();
        GlobalEng {
            c: GlobalCache::new(&G_MAP, &G_ORDER, cfg.limit, cfg.max_memory, policy_of(cfg.policy), cfg.ttl, cfg.fw, &G_STATS),
            mem: cfg.max_memory.is_some(),
        }
    }
}
impl Engine for GlobalEng {
    fn get(&self, k: &str) -> Option<Val> {
        self.c.get(k)
    }
    fn put(&self, k: &str, v: Val) {
        // the macros pick the memory-aware store exactly when max_memory is configured
        if self.mem {
            self.c.insert_with_memory(k, v)
        } else {
            self.c.insert(k, v)
        }
    }
    fn snap(&self) -> Snap {
        let m = G_MAP.read();
        let ents = m.iter().map(|(k, e)| (k.clone(), (e.value.id(), e.frequency, e.value.fp()))).collect();
        let queue = G_ORDER.lock().iter().cloned().collect();
        Snap { ents, queue }
    }
    fn stats(&self) -> (u64, u64) {
        (G_STATS.hits(), G_STATS.misses())
    }
}

// ---------------------------------------------------------------- thread-local
thread_local! {
    static T_MAP: RefCell<HashMap<String, CacheEntry<Val>>> = RefCell::new(HashMap::new());
    static T_ORDER: RefCell<VecDeque<String>> = RefCell::new(VecDeque::new());
}
pub struct ThreadEng {
    c: ThreadLocalCache<Val>,
    mem: bool,
}
impl ThreadEng {
    pub fn new(cfg: &Cfg) -> Self {
        T_MAP.with(|m| m.borrow_mut().clear());
        T_ORDER.with(|o| o.borrow_mut().clear());
        ThreadEng {
            c: ThreadLocalCache::new(&T_MAP, &T_ORDER, cfg.limit, cfg.max_memory, policy_of(cfg.policy), cfg.ttl, cfg.fw),
            mem: cfg.max_memory.is_some(),
        }
    }
}
impl Engine for ThreadEng {
    fn get(&self, k: &str) -> Option<Val> {
        self.c.get(k)
    }
    fn put(&self, k: &str, v: Val) {
        if self.mem {
            self.c.insert_with_memory(k, v)
        } else {
            self.c.insert(k, v)
        }
    }
    fn snap(&self) -> Snap {
        let ents = T_MAP.with(|m| m.borrow().iter().map(|(k, e)| (k.clone(), (e.value.id(), e.frequency, e.value.fp()))).collect());
        let queue = T_ORDER.with(|o| o.borrow().iter().cloned().collect());
        Snap { ents, queue }
    }
    fn stats(&self) -> (u64, u64) {
        (self.c.stats.hits(), self.c.stats.misses())
    }
}

// ---------------------------------------------------------------- async
pub struct AsyncStore {
    pub map: DashMap<String, (Val, u64, u64)>,
    pub order: Mutex<VecDeque<String>>,
    pub stats: CacheStats,
}
impl AsyncStore {
    pub fn new() -> Self {
        AsyncStore { map: DashMap::new(), order: Mutex::new(VecDeque::new()), stats: CacheStats::new() }
    }
}
pub struct AsyncEng<'a> {
    st: &'a AsyncStore,
    c: AsyncGlobalCache<'a, Val>,
    mem: bool,
}
impl<'a> AsyncEng<'a> {
    pub fn new(cfg: &Cfg, st: &'a AsyncStore) -> Self {
        AsyncEng {
            st,
            c: AsyncGlobalCache::new(&st.map, &st.order, cfg.limit, cfg.max_memory, policy_of(cfg.policy), cfg.ttl, cfg.fw, &st.stats),
            mem: cfg.max_memory.is_some(),
        }
    }
}
impl<'a> Engine for AsyncEng<'a> {
    fn get(&self, k: &str) -> Option<Val> {
        self.c.get(k)
    }
    fn put(&self, k: &str, v: Val) {
        if self.mem {
            self.c.insert_with_memory(k, v)
        } else {
            self.c.insert(k, v)
        }
    }
    fn snap(&self) -> Snap {
        let ents = self.st.map.iter().map(|e| (e.key().clone(), (e.value().0.id(), e.value().2, e.value().0.fp()))).collect();
        let queue = self.st.order.lock().iter().cloned().collect();
        Snap { ents, queue }
    }
    fn stats(&self) -> (u64, u64) {
        (self.st.stats.hits(), self.st.stats.misses())
    }
}

pub fn flavour_list() -> [Flavour; 3] {
    [Flavour::Global, Flavour::Thread, Flavour::Async]
}
