//! Value type stored in the L1 caches.  `Val` is a user type whose `MemoryEstimator` delegates
//! to cachelito's own implementations for the wrapped std types, so the engines *and* the
//! built-in estimators are exercised; the oracle side uses `vhooks::Footprint` (independent).

use cachelito_core::MemoryEstimator;
use vhooks::Footprint;

#[derive(Clone, Debug, PartialEq)]
pub struct Blob {
    pub id: u64,
    pub declared: usize,
}
impl MemoryEstimator for Blob {
    fn estimate_memory(&self) -> usize {
        self.declared
    }
}

#[derive(Clone, Debug, PartialEq)]
pub enum Val {
    U(u64),
    S(String),
    B(Vec<u8>),
    VS(Vec<String>),
    OS(Option<String>),
    RS(Result<String, String>),
    T((String, Vec<u32>)),
    BX(Box<String>),
    User(Blob),
    /// Vec of thin owning pointers
    VB(Vec<Box<String>>),
    OB(Option<Box<String>>),
    VOS(Vec<Option<String>>),
    T3((Vec<u8>, Option<String>, Box<Vec<u32>>)),
    RV(Result<Vec<String>, String>),
    VV(Vec<Vec<u8>>),
    BV(Box<Vec<String>>),
}

impl MemoryEstimator for Val {
    fn estimate_memory(&self) -> usize {
        match self {
            Val::U(x) => x.estimate_memory(),
            Val::S(x) => x.estimate_memory(),
            Val::B(x) => x.estimate_memory(),
            Val::VS(x) => x.estimate_memory(),
            Val::OS(x) => x.estimate_memory(),
            Val::RS(x) => x.estimate_memory(),
            Val::T(x) => x.estimate_memory(),
            Val::BX(x) => x.estimate_memory(),
            Val::User(x) => x.estimate_memory(),
            Val::VB(x) => x.estimate_memory(),
            Val::OB(x) => x.estimate_memory(),
            Val::VOS(x) => x.estimate_memory(),
            Val::T3(x) => x.estimate_memory(),
            Val::RV(x) => x.estimate_memory(),
            Val::VV(x) => x.estimate_memory(),
            Val::BV(x) => x.estimate_memory(),
        }
    }
}

impl Val {
    /// the oracle's size of this value
    pub fn fp(&self) -> usize {
        match self {
            Val::U(x) => x.footprint(),
            Val::S(x) => x.footprint(),
            Val::B(x) => x.footprint(),
            Val::VS(x) => x.footprint(),
            Val::OS(x) => x.footprint(),
            Val::RS(x) => x.footprint(),
            Val::T(x) => x.footprint(),
            Val::BX(x) => x.footprint(),
            Val::User(b) => b.declared,
            Val::VB(x) => x.footprint(),
            Val::OB(x) => x.footprint(),
            Val::VOS(x) => x.footprint(),
            Val::T3(x) => x.footprint(),
            Val::RV(x) => x.footprint(),
            Val::VV(x) => x.footprint(),
            Val::BV(x) => x.footprint(),
        }
    }
    pub fn id(&self) -> u64 {
        match self {
            Val::U(x) => *x,
            Val::S(s) => vhooks::rd_string(s),
            Val::B(b) => vhooks::rd_bytes(b),
            Val::VS(v) => vhooks::rd_string(&v[0]),
            Val::OS(o) => vhooks::rd_string(o.as_ref().unwrap()),
            Val::RS(r) => match r {
                Ok(s) | Err(s) => vhooks::rd_string(s),
            },
            Val::T((s, _)) => vhooks::rd_string(s),
            Val::BX(b) => vhooks::rd_string(b),
            Val::User(b) => b.id,
            Val::VB(v) => vhooks::rd_string(&v[0]),
            Val::OB(o) => vhooks::rd_string(o.as_ref().unwrap()),
            Val::VOS(v) => vhooks::rd_string(v[0].as_ref().unwrap()),
            Val::T3((b, _, _)) => vhooks::rd_bytes(b),
            Val::RV(r) => match r {
                Ok(v) => vhooks::rd_string(&v[0]),
                Err(s) => vhooks::rd_string(s),
            },
            Val::VV(v) => vhooks::rd_bytes(&v[0]),
            Val::BV(v) => vhooks::rd_string(&v[0]),
        }
    }
    pub const VARIANTS: usize = 16;

    /// Build variant `variant` carrying `id`, aiming at footprint `target` with `slack` unused
    /// capacity bytes inside it (capacity != length).  Returns the value; its real footprint is
    /// whatever `fp()` says.
    pub fn build(variant: usize, id: u64, target: usize, slack: usize) -> Val {
        fn s_with(id: u64, cap: usize, slack: usize) -> String {
            let cap = cap.max(16);
            let len = cap.saturating_sub(slack).max(16);
            let mut s = String::with_capacity(cap);
            s.push_str(&format!("{:016x}", id));
            while s.len() < len {
                s.push('y');
            }
            s
        }
        let sz_s = std::mem::size_of::<String>();
        match variant % Self::VARIANTS {
            0 => Val::U(id),
            1 => Val::S(s_with(id, target.saturating_sub(sz_s), slack)),
            2 => {
                let cap = target.saturating_sub(std::mem::size_of::<Vec<u8>>()).max(8);
                let len = cap.saturating_sub(slack).max(8);
                let mut v = Vec::with_capacity(cap);
                v.extend_from_slice(&id.to_le_bytes());
                v.resize(len, 7);
                Val::B(v)
            }
            3 => {
                // Vec<String> of two strings, outer capacity 2 (+1 if slack)
                let outer = if slack > 0 { 3 } else { 2 };
                let fixed = std::mem::size_of::<Vec<String>>() + outer * sz_s;
                let rest = target.saturating_sub(fixed).max(32);
                let a = s_with(id, rest / 2, 0);
                let b = s_with(id ^ 1, rest - rest / 2, slack.min(rest / 4));
                let mut v = Vec::with_capacity(outer);
                v.push(a);
                v.push(b);
                Val::VS(v)
            }
            4 => Val::OS(Some(s_with(id, target.saturating_sub(std::mem::size_of::<Option<String>>()), slack))),
            5 => {
                let cap = target.saturating_sub(std::mem::size_of::<Result<String, String>>());
                if id % 2 == 0 {
                    Val::RS(Ok(s_with(id, cap, slack)))
                } else {
                    Val::RS(Err(s_with(id, cap, slack)))
                }
            }
            6 => {
                let fixed = std::mem::size_of::<(String, Vec<u32>)>();
                let rest = target.saturating_sub(fixed).max(20);
                let n32 = (rest / 2) / 4;
                let scap = rest - n32 * 4;
                let mut v: Vec<u32> = Vec::with_capacity(n32);
                for i in 0..n32.saturating_sub(slack / 4) {
                    v.push(i as u32);
                }
                Val::T((s_with(id, scap, 0), v))
            }
            7 => Val::BX(Box::new(s_with(id, target.saturating_sub(8 + sz_s), slack))),
            8 => Val::User(Blob { id, declared: target }),
            9 => {
                // two boxed strings: 24 + cap*8 + 2*(24+len)
                let outer = if slack > 0 { 3 } else { 2 };
                let fixed = std::mem::size_of::<Vec<Box<String>>>() + outer * 8 + 2 * sz_s;
                let rest = target.saturating_sub(fixed).max(32);
                let mut v = Vec::with_capacity(outer);
                v.push(Box::new(s_with(id, rest / 2, 0)));
                v.push(Box::new(s_with(id ^ 1, rest - rest / 2, slack.min(rest / 4))));
                Val::VB(v)
            }
            10 => Val::OB(Some(Box::new(s_with(id, target.saturating_sub(8 + sz_s), slack)))),
            11 => {
                let outer = 2;
                let fixed = std::mem::size_of::<Vec<Option<String>>>() + outer * std::mem::size_of::<Option<String>>();
                let rest = target.saturating_sub(fixed).max(16);
                let mut v = Vec::with_capacity(outer);
                v.push(Some(s_with(id, rest, slack)));
                v.push(None);
                Val::VOS(v)
            }
            12 => {
                let fixed = std::mem::size_of::<(Vec<u8>, Option<String>, Box<Vec<u32>>)>() + std::mem::size_of::<Vec<u32>>();
                let rest = target.saturating_sub(fixed).max(36);
                let nb = (rest / 3).max(8);
                let ns = (rest / 3).max(16);
                let n32 = rest.saturating_sub(nb + ns) / 4;
                let mut b = Vec::with_capacity(nb);
                b.extend_from_slice(&id.to_le_bytes());
                b.resize(nb.saturating_sub(slack).max(8), 1);
                Val::T3((b, Some(s_with(id, ns, 0)), Box::new((0..n32 as u32).collect::<Vec<u32>>())))
            }
            13 => {
                let fixed = std::mem::size_of::<Result<Vec<String>, String>>();
                if id % 3 == 0 {
                    Val::RV(Err(s_with(id, target.saturating_sub(fixed), slack)))
                } else {
                    let rest = target.saturating_sub(fixed + sz_s).max(16);
                    let mut v = Vec::with_capacity(1);
                    v.push(s_with(id, rest, slack));
                    Val::RV(Ok(v))
                }
            }
            14 => {
                let fixed = std::mem::size_of::<Vec<Vec<u8>>>() + 2 * std::mem::size_of::<Vec<u8>>();
                let rest = target.saturating_sub(fixed).max(16);
                let mut a = Vec::with_capacity(rest / 2);
                a.extend_from_slice(&id.to_le_bytes());
                a.resize((rest / 2).saturating_sub(slack).max(8), 2);
                let b: Vec<u8> = vec![3u8; rest - rest / 2];
                let mut v = Vec::with_capacity(2);
                v.push(a);
                v.push(b);
                Val::VV(v)
            }
            _ => {
                let fixed = 8 + std::mem::size_of::<Vec<String>>() + sz_s;
                let rest = target.saturating_sub(fixed).max(16);
                let mut v = Vec::with_capacity(1);
                v.push(s_with(id, rest, slack));
                Val::BV(Box::new(v))
            }
        }
    }
}
