//! l1mon — sequential monitor at core level (channel L1): drives the three real engines with
//! generated histories on the virtual clock and compares every observable (result, whole store,
//! statistics) with the specification model.  Decides C01 (raw lookups), C04–C08, C15 (core
//! counters), C16 (no panic) for the configuration product.
//!
//! usage: l1mon --out FILE [--seed N] [--shard I/N] [--tier quick|thorough] [--replay FILE]

mod engines;
mod val;

use engines::*;
use serde_json::{json, Value};
use std::collections::{BTreeMap, BTreeSet};
use std::panic::{catch_unwind, AssertUnwindSafe};
use val::Val;
use vmon::classify::{classify_lookup, classify_store, pressure, sig};
use vmon::model::{self, ttl_ns, Belief, Cfg, Flavour, Key, LookupOut, Policy, State, Step, SEC};
use vmon::report::{hash64, Report};
use vmon::rng::Rng;

vmon::install_virtual_clock!();

#[derive(Clone, Debug)]
enum Op {
    Get(Key),
    /// key, variant, id, target footprint, slack
    Put(Key, usize, u64, usize, usize),
    Adv(i64),
}

fn op_json(o: &Op) -> Value {
    match o {
        Op::Get(k) => json!({"get": k}),
        Op::Put(k, v, id, t, s) => json!({"put": k, "variant": v, "id": id, "target": t, "slack": s}),
        Op::Adv(ns) => json!({"adv_ns": ns}),
    }
}
fn op_from(v: &Value) -> Op {
    if let Some(k) = v.get("get") {
        Op::Get(k.as_u64().unwrap() as Key)
    } else if let Some(k) = v.get("put") {
        Op::Put(
            k.as_u64().unwrap() as Key,
            v["variant"].as_u64().unwrap() as usize,
            v["id"].as_u64().unwrap(),
            v["target"].as_u64().unwrap() as usize,
            v["slack"].as_u64().unwrap() as usize,
        )
    } else {
        Op::Adv(v["adv_ns"].as_i64().unwrap())
    }
}
fn cfg_json(c: &Cfg) -> Value {
    json!({"flavour": c.flavour.name(), "policy": c.policy.name(), "limit": c.limit, "ttl": c.ttl, "max_memory": c.max_memory, "fw": c.fw, "age_exact": c.age_exact})
}
fn cfg_from(v: &Value) -> Cfg {
    Cfg {
        flavour: match v["flavour"].as_str().unwrap() {
            "global" => Flavour::Global,
            "thread" => Flavour::Thread,
            _ => Flavour::Async,
        },
        policy: Policy::from_name(v["policy"].as_str().unwrap()).unwrap(),
        limit: v["limit"].as_u64().map(|x| x as usize),
        ttl: v["ttl"].as_u64(),
        max_memory: v["max_memory"].as_u64().map(|x| x as usize),
        fw: v["fw"].as_f64(),
        age_exact: v["age_exact"].as_bool().unwrap_or(false),
    }
}

const MEMS: [usize; 3] = [120, 200, 400];
const FWS: [Option<f64>; 6] = [None, Some(0.1), Some(0.3), Some(1.0), Some(1.5), Some(3.0)];

fn all_configs() -> Vec<Cfg> {
    let mut v = vec![];
    for flavour in flavour_list() {
        for policy in Policy::ALL {
            for limit in [None, Some(1), Some(2), Some(3), Some(4)] {
                for ttl in [None, Some(1u64), Some(2), Some(3)] {
                    for mem in [None, Some(MEMS[0]), Some(MEMS[1]), Some(MEMS[2])] {
                        let fws: &[Option<f64>] = if policy == Policy::Tlru { &FWS } else { &FWS[..1] };
                        for fw in fws {
                            v.push(Cfg { flavour, policy, limit, ttl, max_memory: mem, fw: *fw, age_exact: false });
                        }
                    }
                }
            }
        }
    }
    // ttls far beyond anything the clock reaches ("never expires"): appended so that the indices of
    // the configurations above stay what they were
    for flavour in flavour_list() {
        for policy in Policy::ALL {
            for ttl in [1u64 << 32, 9_223_372_037, u64::MAX / 1000 + 1, 1u64 << 63, u64::MAX] {
                for limit in [None, Some(2)] {
                    for mem in [None, Some(MEMS[1])] {
                        let fws: &[Option<f64>] = if policy == Policy::Tlru { &FWS[..5] } else { &FWS[..1] };
                        for fw in fws.iter().step_by(4) {
                            v.push(Cfg { flavour, policy, limit, ttl: Some(ttl), max_memory: mem, fw: *fw, age_exact: false });
                        }
                    }
                }
            }
        }
    }
    // limits far beyond anything that is ever stored ("effectively unbounded"), and ttl = 0
    // (every entry is expired as soon as it is stored: never served, purged on access)
    for flavour in flavour_list() {
        for policy in Policy::ALL {
            for (limit, ttl) in [(Some(usize::MAX), None), (Some(1_000_000_000_000_000_000usize), Some(2u64)), (Some(1usize << 32), None), (None, Some(0u64)), (Some(2), Some(0)), (Some(usize::MAX), Some(u64::MAX))] {
                for mem in [None, Some(MEMS[1])] {
                    let fws: &[Option<f64>] = if policy == Policy::Tlru { &FWS[..5] } else { &FWS[..1] };
                    for fw in fws.iter().step_by(4) {
                        v.push(Cfg { flavour, policy, limit, ttl, max_memory: mem, fw: *fw, age_exact: false });
                    }
                }
            }
        }
    }
    // caches with a few hundred residents (victim searches over long queues)
    for flavour in flavour_list() {
        for policy in Policy::ALL.into_iter().filter(|p| *p != Policy::Random) {
            for limit in [300usize, 270] {
                v.push(Cfg { flavour, policy, limit: Some(limit), ttl: None, max_memory: None, fw: if policy == Policy::Tlru && limit == 270 { Some(1.5) } else { None }, age_exact: false });
            }
        }
    }
    v
}

fn key_str(k: Key) -> String {
    format!("k{}", k)
}
fn key_of(s: &str) -> Option<Key> {
    s.strip_prefix('k').and_then(|x| x.parse().ok())
}

/// Generates a history for `cfg`.
/// History for a cache with hundreds of residents: fill it, hit mostly the early keys (so that
/// the least popular / lowest-score entries sit far back in the order queue), then overflow.
fn gen_history_large(cfg: &Cfg, rng: &mut Rng, next_id: &mut u64) -> (Vec<Op>, bool) {
    let n = cfg.limit.unwrap();
    let mut ops = vec![];
    for k in 0..n {
        *next_id += 1;
        ops.push(Op::Put(k as Key, 0, *next_id, 48, 0));
    }
    // every key but a few late ones gets at least one hit
    let spared: Vec<usize> = (0..3).map(|_| n - 1 - rng.usize(30)).collect();
    for k in 0..n {
        if !spared.contains(&k) {
            ops.push(Op::Get(k as Key));
            if rng.chance(1, 5) {
                ops.push(Op::Get(k as Key));
            }
        }
    }
    for i in 0..(4 + rng.usize(6)) {
        *next_id += 1;
        ops.push(Op::Put((n + i) as Key, 0, *next_id, 48, 0));
        if rng.chance(1, 2) {
            ops.push(Op::Get(rng.usize(n) as Key));
        }
    }
    (ops, false)
}

/// History with *hot* keys: a small bounded cache whose residents collect hundreds or tens of
/// thousands of hits (past what 8- and 16-bit counters hold, wrapping or saturating) before the
/// overflow, so that the victim depends on the true counts.
fn gen_history_hot(cfg: &Cfg, rng: &mut Rng, next_id: &mut u64) -> (Vec<Op>, bool) {
    let n = cfg.limit.unwrap();
    let wide = rng.chance(1, 12);
    let profile: (usize, usize) = if wide { [(65_537, 2), (65_536, 3), (70_000, 66_000), (65_535 + 20, 65_535 + 5)][rng.usize(4)] } else { [(257, 2), (256, 1), (300, 260), (255 + 9, 255 + 3), (513, 258)][rng.usize(5)] };
    let mut counts: Vec<usize> = vec![profile.0, profile.1];
    while counts.len() < n {
        counts.push(profile.0.max(profile.1) + 10 + counts.len());
    }
    // which key gets which count
    for i in (1..counts.len()).rev() {
        let j = rng.usize(i + 1);
        counts.swap(i, j);
    }
    let mut ops = vec![];
    for k in 0..n {
        *next_id += 1;
        ops.push(Op::Put(k as Key, 0, *next_id, 48, 0));
    }
    // hits in blocks, the blocks in random order, the last hit of each key at the very end in
    // random order too (so recency and popularity are independent)
    let mut order: Vec<usize> = (0..n).collect();
    for i in (1..n).rev() {
        let j = rng.usize(i + 1);
        order.swap(i, j);
    }
    for &k in &order {
        for _ in 0..counts[k] - 1 {
            ops.push(Op::Get(k as Key));
        }
    }
    for i in (1..n).rev() {
        let j = rng.usize(i + 1);
        order.swap(i, j);
    }
    for &k in &order {
        ops.push(Op::Get(k as Key));
    }
    for i in 0..(1 + rng.usize(n)) {
        *next_id += 1;
        ops.push(Op::Put((n + i) as Key, 0, *next_id, 48, 0));
        if rng.chance(1, 2) {
            ops.push(Op::Get(rng.usize(n + i + 1) as Key));
        }
    }
    for k in 0..2 * n {
        ops.push(Op::Get(k as Key));
    }
    (ops, false)
}

fn gen_history(cfg: &Cfg, rng: &mut Rng, next_id: &mut u64) -> (Vec<Op>, bool) {
    if cfg.limit.map_or(false, |n| (100..100_000).contains(&n)) {
        return gen_history_large(cfg, rng, next_id);
    }
    if cfg.limit.map_or(false, |n| (2..=4).contains(&n)) && cfg.ttl.is_none() && cfg.max_memory.is_none() && rng.chance(1, 400) {
        return gen_history_hot(cfg, rng, next_id);
    }
    let cap = cfg.limit.unwrap_or(if cfg.max_memory.is_some() { 4 } else { 3 }).min(5);
    let alphabet = cap + 1 + rng.usize(3);
    let len = 40 + rng.usize(160);
    let aligned = cfg.flavour == Flavour::Async && rng.chance(1, 2);
    let mut ops = Vec::with_capacity(len + 8);
    // (key -> virtual time of last put), to aim advances at expiry boundaries
    let mut born: BTreeMap<Key, i64> = BTreeMap::new();
    let mut now: i64 = 0;
    let p_adv = if cfg.ttl.is_some() { 18 } else { 3 };
    for _ in 0..len {
        let r = rng.usize(100);
        if r < p_adv {
            let mut ns = match rng.usize(6) {
                0 => 250_000_000,
                1 => SEC,
                2 => 1,
                3 => 999_999_999,
                _ => {
                    // aim at the expiry boundary of some stored key: exactly, 1 ns before, 1 ns after
                    if let (Some(t), false) = (cfg.ttl.filter(|t| model::ttl_reachable(*t)), born.is_empty()) {
                        let ks: Vec<_> = born.keys().copied().collect();
                        let k = *rng.pick(&ks);
                        let target = born[&k].saturating_add(ttl_ns(t)).saturating_add([-1i64, 0, 1, -SEC, SEC - 1][rng.usize(5)]);
                        (target - now).max(1)
                    } else {
                        SEC / 2
                    }
                }
            };
            if aligned {
                ns = ((ns + SEC - 1) / SEC).max(1) * SEC;
            }
            now += ns;
            ops.push(Op::Adv(ns));
        } else if r < p_adv + 42 {
            let k = rng.skewed(alphabet) as Key;
            *next_id += 1;
            let (variant, target, slack) = match cfg.max_memory {
                None => (if rng.chance(3, 4) { 0 } else { 1 + rng.usize(15) }, 40 + rng.usize(60), if rng.chance(1, 4) { rng.usize(16) } else { 0 }),
                Some(m) => {
                    let t = match rng.usize(10) {
                        0 => m + 1 + rng.usize(m),
                        1 => m,
                        2 => m - 1,
                        3 => m / 2,
                        4 => m / 2 + 1,
                        5 | 6 => m / 3,
                        7 => m / 4 + rng.usize(8),
                        _ => 40 + rng.usize(m / 2),
                    };
                    let variant = if t >= 150 { 1 + rng.usize(15) } else if t >= 110 { [1usize, 2, 3, 4, 5, 6, 7, 8, 10, 11, 13, 15][rng.usize(12)] } else { [1usize, 2, 4, 5, 7, 8, 10][rng.usize(7)] };
                    if rng.chance(1, 14) {
                        // a value whose estimator reports 0 bytes (unit-like): evicting it frees nothing
                        (8, 0, 0)
                    } else {
                        (variant, t, if rng.chance(1, 3) { rng.usize(24) } else { 0 })
                    }
                }
            };
            born.insert(k, now);
            ops.push(Op::Put(k, variant, *next_id, target, slack));
        } else {
            let k = rng.skewed(alphabet) as Key;
            ops.push(Op::Get(k));
        }
    }
    // fill probe: fresh keys beyond the alphabet, then read everything back
    let probe = cfg.limit.unwrap_or(4).min(6) + 2;
    for i in 0..probe {
        *next_id += 1;
        let t = cfg.max_memory.map(|m| m / 3).unwrap_or(48);
        ops.push(Op::Put(1000 + i as Key, if cfg.max_memory.is_some() { 1 } else { 0 }, *next_id, t, 0));
    }
    for k in 0..alphabet {
        ops.push(Op::Get(k as Key));
    }
    (ops, aligned)
}

struct Ctx<'a> {
    rep: &'a mut Report,
    cfg_index: usize,
    seed: u64,
}

fn snap_keys(s: &Snap) -> Result<BTreeMap<Key, (u64, usize)>, String> {
    let mut m = BTreeMap::new();
    for (k, (id, _f, fp)) in &s.ents {
        match key_of(k) {
            Some(kk) => {
                m.insert(kk, (*id, *fp));
            }
            None => return Err(k.clone()),
        }
    }
    Ok(m)
}

/// Runs one history; returns false if it ended early on a violation.
fn run_history(ctx: &mut Ctx, cfg: &Cfg, ops: &[Op], hist_id: u64, verbose: bool) -> bool {
    vmon::clock::init();
    let store = AsyncStore::new();
    let eng: Box<dyn Engine + '_> = match cfg.flavour {
        Flavour::Global => Box::new(GlobalEng::new(cfg)),
        Flavour::Thread => Box::new(ThreadEng::new(cfg)),
        Flavour::Async => Box::new(AsyncEng::new(cfg, &store)),
    };
    let mut belief = Belief::new();
    // keys whose entry the model purged on an expired lookup and that were not stored since
    let mut purged_by_expiry: BTreeSet<Key> = BTreeSet::new();
    // the engine's order queue as observed after the previous operation
    let mut last_queue: Vec<String> = vec![];
    let witness = |upto: usize, extra: Value| -> Value {
        json!({"monitor": "l1mon", "cfg": cfg_json(cfg), "cfg_index": ctx_cfg_index(), "ops": ops[..=upto].iter().map(op_json).collect::<Vec<_>>(), "failed_at": upto, "detail": extra})
    };
    // (closure cannot borrow ctx mutably and immutably; cfg_index passed through a cell)
    CFG_INDEX.with(|c| c.set(ctx.cfg_index));
    HIST.with(|c| c.set((ctx.seed, hist_id)));
    let rep = &mut *ctx.rep;
    rep.count("L1", "histories", 1);
    for (i, op) in ops.iter().enumerate() {
        let now = vmon::clock::now();
        match op {
            Op::Adv(ns) => {
                vmon::clock::advance(*ns);
                rep.count("L1", "advances", 1);
            }
            Op::Get(k) => {
                let ks = key_str(*k);
                let r = catch_unwind(AssertUnwindSafe(|| eng.get(&ks)));
                rep.count("C16", "ops_under_catch_unwind", 1);
                let got = match r {
                    Ok(g) => g,
                    Err(p) => {
                        let msg = panic_msg(&p);
                        let disc = format!("limit={},mem={}", opt(cfg.limit.is_some()), opt(cfg.max_memory.is_some()));
                        rep.violation("C16", &sig("C16", "L1", cfg, "panic-in-lookup", &disc), &format!("lookup panicked: {}", msg), witness(i, json!({"panic": msg})));
                        return false;
                    }
                };
                let snap = eng.snap();
                let post = match snap_keys(&snap) {
                    Ok(p) => p,
                    Err(k) => {
                        rep.violation("C01", &sig("C01", "L1", cfg, "foreign-key-in-store", ""), &format!("key {:?} in store", k), witness(i, json!({})));
                        return false;
                    }
                };
                let got_id = got.as_ref().map(|v| v.id());
                let stats = eng.stats();
                // evidence counters (before the check, from the single pre-state if there is one)
                if let Some(pre) = belief.single() {
                    if let Some(e) = pre.get(*k) {
                        if let Some(t) = cfg.ttl {
                            let age = now - e.born;
                            let d = (age - ttl_ns(t)).abs();
                            if d <= 1 {
                                rep.count("C06", "lookups_within_1ns_of_boundary", 1);
                            } else if d <= SEC {
                                rep.count("C06", "lookups_within_1s_of_boundary", 1);
                            }
                            if age >= ttl_ns(t) {
                                rep.count("C06", "expired_lookups", 1);
                            } else {
                                rep.count("C06", "live_lookups_with_ttl", 1);
                            }
                            rep.distinct("C06", hash64(&[ctx.cfg_index as u64, (age / (SEC / 4)) as u64, pre.ents.len() as u64, (age % SEC == 0) as u64]));
                        }
                        rep.count("C01", "lookups_of_stored_key", 1);
                        rep.distinct("C01", hash64(&[ctx.cfg_index as u64, 1, *k as u64, e.hits.min(5), pre.ents.len() as u64]));
                    } else {
                        rep.count("C01", "lookups_of_absent_key", 1);
                    }
                }
                let had_entry_before = belief.states.iter().any(|s| s.get(*k).is_some());
                let step = belief.advance(|s| {
                    let outs = model::lookup(cfg, s, *k, now);
                    let allowed: Vec<String> = outs.iter().map(|(o, t)| format!("{:?} -> {}", o, model::fmt_state(t))).collect();
                    let ok: Vec<State> = outs
                        .into_iter()
                        .filter(|(o, t)| {
                            let res_ok = match (o, got_id) {
                                (LookupOut::Hit(v), Some(g)) => *v == g,
                                (LookupOut::Miss, None) => true,
                                _ => false,
                            };
                            res_ok && state_matches(t, &post) && (t.hits, t.misses) == stats
                        })
                        .map(|x| x.1)
                        .collect();
                    (ok, allowed)
                });
                rep.count("L1", "lookups", 1);
                rep.count("C15", "counter_comparisons", 1);
                rep.distinct("C15", hash64(&[ctx.cfg_index as u64, stats.0.min(40), stats.1.min(40)]));
                match step {
                    Step::Ok => {
                        if had_entry_before && got_id.is_none() {
                            purged_by_expiry.insert(*k);
                        }
                        last_queue = snap.queue.clone();
                    }
                    Step::Overflow => {
                        rep.inconclusive("L1", "belief cap");
                        return true;
                    }
                    Step::Empty { before, allowed } => {
                        let pre = &before[0];
                        let (p, sg, what) = classify_lookup("L1", cfg, pre, *k, now, got_id, &post);
                        rep.violation(&p, &sg, &what, witness(i, json!({"pre": model::fmt_state(pre), "observed_result": got_id.map(|x| format!("{:x}", x)), "observed_store": fmt_post(&post), "observed_queue": snap.queue, "observed_stats": [stats.0, stats.1], "model_stats": [pre.hits, pre.misses], "allowed": allowed, "now_ns": now})));
                        if verbose {
                            eprintln!("VIOLATION {} {}", sg, what);
                        }
                        return false;
                    }
                }
            }
            Op::Put(k, variant, id, target, slack) => {
                let v = Val::build(*variant, *id, *target, *slack);
                debug_assert_eq!(v.id(), *id);
                let fp = v.fp();
                let ks = key_str(*k);
                let r = catch_unwind(AssertUnwindSafe(|| eng.put(&ks, v)));
                rep.count("C16", "ops_under_catch_unwind", 1);
                if let Err(p) = r {
                    let msg = panic_msg(&p);
                    let disc = format!("limit={},mem={}", opt(cfg.limit.is_some()), opt(cfg.max_memory.is_some()));
                    rep.violation("C16", &sig("C16", "L1", cfg, "panic-in-store", &disc), &format!("store panicked: {}", msg), witness(i, json!({"panic": msg})));
                    if verbose {
                        eprintln!("VIOLATION C16 panic {}", msg);
                    }
                    return false;
                }
                let snap = eng.snap();
                let post = match snap_keys(&snap) {
                    Ok(p) => p,
                    Err(k) => {
                        rep.violation("C01", &sig("C01", "L1", cfg, "foreign-key-in-store", ""), &format!("key {:?} in store", k), witness(i, json!({})));
                        return false;
                    }
                };
                let stats = eng.stats();
                // evidence counters
                if let Some(pre) = belief.single() {
                    let pr = pressure(cfg, pre, *k, fp);
                    let replacing = pre.get(*k).is_some();
                    rep.count("L1", &format!("stores_pressure_{}", pr), 1);
                    if replacing {
                        rep.count("C01", "restores_of_live_key_with_new_value", 1);
                    }
                    let sh = hash64(&[ctx.cfg_index as u64, 2, pre.ents.len() as u64, replacing as u64, order_shape(pre), (fp / 16) as u64]);
                    match pr {
                        "limit" => {
                            rep.count("C04", "overflowing_stores", 1);
                            rep.distinct("C04", sh);
                        }
                        "memory" | "both" => {
                            rep.count("C05", "stores_under_memory_pressure", 1);
                            rep.distinct("C05", sh);
                        }
                        _ => {
                            rep.count("C04", "non_overflowing_stores", 1);
                        }
                    }
                    if cfg.max_memory.map_or(false, |m| fp > m) {
                        rep.count("C05", "oversized_stores", 1);
                    }
                    if cfg.max_memory.is_some() && *slack > 0 {
                        rep.count("C05", "values_with_slack_capacity", 1);
                    }
                    if pr != "none" {
                        match cfg.policy {
                            Policy::Fifo | Policy::Lru => {
                                rep.count("C07", &format!("victims_checked_{}_pressure", if pr == "limit" { "limit" } else { "memory" }), 1);
                                rep.distinct("C07", sh);
                            }
                            Policy::Lfu | Policy::Arc | Policy::Tlru => {
                                rep.count("C08", "victims_checked", 1);
                                // separated = the residents-only candidate set has a unique minimiser
                                let cands: Vec<&model::Ent> = pre.ents.iter().filter(|e| e.key != *k).collect();
                                let vs = model::victims(cfg, &cands, now);
                                if vs.len() == 1 {
                                    rep.count("C08", "victims_checked_with_unique_resident_minimiser", 1);
                                } else {
                                    rep.count("C08", "victims_checked_with_ties", 1);
                                }
                                rep.distinct("C08", sh ^ hash64(&pre.ents.iter().map(|e| e.hits.min(6)).collect::<Vec<_>>()));
                            }
                            Policy::Random => {}
                        }
                    }
                }
                let mut n_allowed = 0usize;
                let step = belief.advance(|s| {
                    let outs = model::store(cfg, s, *k, *id, fp, now);
                    n_allowed = outs.len();
                    let allowed: Vec<String> = outs.iter().map(model::fmt_state).collect();
                    let ok: Vec<State> = outs.into_iter().filter(|t| state_matches(t, &post) && (t.hits, t.misses) == stats).collect();
                    (ok, allowed)
                });
                rep.count("L1", "stores", 1);
                match step {
                    Step::Ok => {
                        purged_by_expiry.remove(k);
                        last_queue = snap.queue.clone();
                    }
                    Step::Overflow => {
                        rep.inconclusive("L1", "belief cap");
                        return true;
                    }
                    Step::Empty { before, allowed } => {
                        let pre = &before[0];
                        let (p, sg, what) = if (pre.hits, pre.misses) != stats {
                            ("C15".to_string(), sig("C15", "L1", cfg, "core-counters-changed-by-store", ""), "a store changed the hit/miss counters".to_string())
                        } else {
                            classify_store("L1", cfg, pre, *k, *id, fp, now, &post)
                        };
                        // was the queue still carrying a key purged on an expired lookup?  (C06: the
                        // expired entry "no longer occupies capacity")
                        let orphan = last_queue.iter().filter_map(|q| key_of(q)).find(|q| *q != *k && pre.get(*q).is_none() && purged_by_expiry.contains(q));
                        let w = witness(i, json!({"pre": model::fmt_state(pre), "stored": {"key": k, "fp": fp, "id": format!("{:x}", id)}, "observed_store": fmt_post(&post), "observed_queue": snap.queue, "queue_before": last_queue, "allowed": allowed, "now_ns": now}));
                        match orphan {
                            Some(q) if matches!(p.as_str(), "C04" | "C05" | "C07" | "C08") => {
                                let what2 = format!("{} (the order queue still held k{}, purged on an expired lookup)", what, q);
                                rep.violation_tainted(&p, &sg, &what2, w, "C06", "expiry-purge");
                            }
                            _ => rep.violation(&p, &sg, &what, w),
                        }
                        if verbose {
                            eprintln!("VIOLATION {} {}", sg, what);
                        }
                        return false;
                    }
                }
            }
        }
    }
    true
}

thread_local! {
    static CFG_INDEX: std::cell::Cell<usize> = std::cell::Cell::new(0);
    static HIST: std::cell::Cell<(u64,u64)> = std::cell::Cell::new((0,0));
}
fn ctx_cfg_index() -> usize {
    CFG_INDEX.with(|c| c.get())
}

fn opt(b: bool) -> &'static str {
    if b {
        "some"
    } else {
        "none"
    }
}

fn order_shape(s: &State) -> u64 {
    // relative order of keys by last_use and by stored_at, as a hash
    let mut a: Vec<(u64, Key)> = s.ents.iter().map(|e| (e.last_use, e.key)).collect();
    a.sort();
    let mut b: Vec<(u64, Key)> = s.ents.iter().map(|e| (e.stored_at, e.key)).collect();
    b.sort();
    let v: Vec<u64> = a.iter().map(|x| x.1 as u64).chain(b.iter().map(|x| 100 + x.1 as u64)).collect();
    hash64(&v)
}

fn state_matches(t: &State, post: &BTreeMap<Key, (u64, usize)>) -> bool {
    t.ents.len() == post.len() && t.ents.iter().all(|e| post.get(&e.key).map_or(false, |(v, _)| *v == e.val))
}
fn fmt_post(post: &BTreeMap<Key, (u64, usize)>) -> String {
    post.iter().map(|(k, (v, fp))| format!("k{}(v={:x},fp={})", k, v & 0xffff, fp)).collect::<Vec<_>>().join(" ")
}
fn panic_msg(p: &Box<dyn std::any::Any + Send>) -> String {
    if let Some(s) = p.downcast_ref::<&str>() {
        s.to_string()
    } else if let Some(s) = p.downcast_ref::<String>() {
        s.clone()
    } else {
        "non-string panic payload".into()
    }
}

fn main() {
    let args: Vec<String> = std::env::args().collect();
    let mut out = String::from("/dev/stdout");
    let mut seed = vmon::rng::seed_from_env();
    let mut shard = (0usize, 1usize);
    let mut tier = String::from("quick");
    let mut replay: Option<String> = None;
    let mut focus = String::from("all");
    let mut i = 1;
    while i < args.len() {
        match args[i].as_str() {
            "--out" => {
                out = args[i + 1].clone();
                i += 1;
            }
            "--seed" => {
                seed = args[i + 1].parse().unwrap();
                i += 1;
            }
            "--shard" => {
                let p: Vec<usize> = args[i + 1].split('/').map(|x| x.parse().unwrap()).collect();
                shard = (p[0], p[1]);
                i += 1;
            }
            "--tier" => {
                tier = args[i + 1].clone();
                i += 1;
            }
            "--focus" => {
                focus = args[i + 1].clone();
                i += 1;
            }
            "--replay" => {
                replay = Some(args[i + 1].clone());
                i += 1;
            }
            _ => {}
        }
        i += 1;
    }
    // panics are expected to be caught; keep their messages out of the way
    std::panic::set_hook(Box::new(|_| {}));
    vmon::clock::init();
    let t0 = vmon::clock::real_mono_ns();
    let mut rep = Report::new();

    if let Some(path) = replay {
        let doc: Value = serde_json::from_str(&std::fs::read_to_string(&path).expect("read replay")).expect("json");
        let w = if doc.get("witness").is_some() { &doc["witness"] } else { &doc };
        let cfg = cfg_from(&w["cfg"]);
        let ops: Vec<Op> = w["ops"].as_array().unwrap().iter().map(op_from).collect();
        let mut ctx = Ctx { rep: &mut rep, cfg_index: w["cfg_index"].as_u64().unwrap_or(0) as usize, seed };
        let ok = run_history(&mut ctx, &cfg, &ops, 0, true);
        rep.write(&out);
        if ok {
            println!("REPLAY: history ran to the end without a violation ({} ops, {})", ops.len(), cfg.describe());
            std::process::exit(0);
        } else {
            println!("REPLAY: violation reproduced ({})", cfg.describe());
            std::process::exit(1);
        }
    }

    rep.shards_disjoint = true;
    let cfgs: Vec<Cfg> = all_configs();
    let in_focus = |c: &Cfg| -> bool {
        match focus.as_str() {
            "C04" => c.limit.is_some(),
            "C05" => c.max_memory.is_some(),
            "C06" => c.ttl.is_some(),
            "C07" => matches!(c.policy, Policy::Fifo | Policy::Lru) && (c.limit.is_some() || c.max_memory.is_some()),
            "C08" => matches!(c.policy, Policy::Lfu | Policy::Arc | Policy::Tlru) && (c.limit.is_some() || c.max_memory.is_some()),
            _ => true,
        }
    };
    let n_focus = cfgs.iter().filter(|c| in_focus(c)).count().max(1);
    let budget: usize = std::env::var("VERIF_L1_HISTORIES").ok().and_then(|s| s.parse().ok()).unwrap_or(if tier == "thorough" { 12_000_000 } else { 300_000 });
    let per_cfg = (budget / n_focus).max(4);
    let mut next_id: u64 = (seed << 32) ^ ((shard.0 as u64) << 24);
    let mut visited = 0u64;
    for (ci, cfg) in cfgs.iter().enumerate() {
        if ci % shard.1 != shard.0 || !in_focus(cfg) {
            continue;
        }
        visited += 1;
        rep.distinct("C16", hash64(&[ci as u64]));
        let mut rng = Rng::new(seed.wrapping_mul(0x1000_0000_01B3) ^ (ci as u64) << 8);
        let mut sampled = false;
        for h in 0..per_cfg {
            let mut r = rng.fork(h as u64);
            let (ops, aligned) = gen_history(cfg, &mut r, &mut next_id);
            let mut cfg_h = *cfg;
            cfg_h.age_exact = aligned;
            let cfg = &cfg_h;
            let mut ctx = Ctx { rep: &mut rep, cfg_index: ci, seed };
            let ok = run_history(&mut ctx, cfg, &ops, h as u64, false);
            if cfg.limit.map_or(false, |n| n <= 4) && ops.len() > 500 {
                rep.count(if matches!(cfg.policy, Policy::Fifo | Policy::Lru | Policy::Random) { "C07" } else { "C08" }, if ops.len() > 60_000 { "hot_key_histories_beyond_16_bit_counts" } else { "hot_key_histories_beyond_8_bit_counts" }, 1);
            }
            if ok && !sampled && visited % 8 == 1 && h >= 1 {
                sampled = true;
                let s = json!({"cfg": cfg_json(cfg), "ops": ops.iter().take(40).map(op_json).collect::<Vec<_>>(), "ops_total": ops.len(), "verdict": "every step explained by the model"});
                for p in ["C01", "C04", "C05", "C06", "C07", "C08", "C15", "C16"] {
                    let relevant = match p {
                        "C05" => cfg.max_memory.is_some(),
                        "C06" => cfg.ttl.is_some(),
                        "C07" => matches!(cfg.policy, Policy::Fifo | Policy::Lru),
                        "C08" => matches!(cfg.policy, Policy::Lfu | Policy::Arc | Policy::Tlru),
                        "C04" => cfg.limit.is_some(),
                        _ => true,
                    };
                    if relevant {
                        rep.sample(p, s.clone(), 2);
                    }
                }
            }
        }
    }
    rep.count("C16", "configurations_visited", visited);
    rep.count("C16", "configuration_product_size", if shard.0 == 0 { cfgs.len() as u64 } else { 0 });
    rep.count("L1", "configurations_in_focus", if shard.0 == 0 { n_focus as u64 } else { 0 });
    rep.count("L1", "histories_per_configuration", if shard.0 == 0 { per_cfg as u64 } else { 0 });
    rep.notes.push(format!("l1mon shard {}/{} seed {} tier {} wall {:.2}s", shard.0, shard.1, seed, tier, (vmon::clock::real_mono_ns() - t0) as f64 / 1e9));
    rep.write(&out);
}
