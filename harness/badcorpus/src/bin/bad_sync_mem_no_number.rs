#![allow(dead_code)]
use cachelito::cache;
#[cache(max_memory = "MB")]
pub fn f(x: u32) -> String { format!("v{}", x) }
fn main() {}
