#![allow(dead_code)]
use cachelito::cache;
#[cache(scope = "process")]
pub fn f(x: u32) -> String { format!("v{}", x) }
fn main() {}
