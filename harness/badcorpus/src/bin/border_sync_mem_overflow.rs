#![allow(dead_code)]
use cachelito::cache;
#[cache(max_memory = "99999999999999999999GB")]
pub fn f(x: u32) -> String { format!("v{}", x) }
fn main() {}
