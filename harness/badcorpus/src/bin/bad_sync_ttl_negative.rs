#![allow(dead_code)]
use cachelito::cache;
#[cache(ttl = -1)]
pub fn f(x: u32) -> String { format!("v{}", x) }
fn main() {}
