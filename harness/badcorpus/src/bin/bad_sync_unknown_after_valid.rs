#![allow(dead_code)]
use cachelito::cache;
#[cache(limit = 2, evict = "lru")]
pub fn f(x: u32) -> String { format!("v{}", x) }
fn main() {}
