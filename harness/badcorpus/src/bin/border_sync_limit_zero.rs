#![allow(dead_code)]
use cachelito::cache;
#[cache(limit = 0)]
pub fn f(x: u32) -> String { format!("v{}", x) }
fn main() {}
