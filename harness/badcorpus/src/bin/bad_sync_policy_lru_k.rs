#![allow(dead_code)]
use cachelito::cache;
#[cache(limit = 2, policy = "lru-k")]
pub fn f(x: u32) -> String { format!("v{}", x) }
fn main() {}
