#![allow(dead_code)]
use cachelito::cache;
#[cache(max_memory = true)]
pub fn f(x: u32) -> String { format!("v{}", x) }
fn main() {}
