#![allow(dead_code)]
use cachelito_async::cache_async;
#[cache_async(policy = "tlru", frequency_weight = -1.0)]
pub async fn f(x: u32) -> String { format!("v{}", x) }
fn main() {}
