#![allow(dead_code)]
use cachelito_async::cache_async;
#[cache_async(policy = "mru")]
pub async fn f(x: u32) -> String { format!("v{}", x) }
fn main() {}
