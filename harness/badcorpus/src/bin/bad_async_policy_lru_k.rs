#![allow(dead_code)]
use cachelito_async::cache_async;
#[cache_async(limit = 2, policy = "lru-k")]
pub async fn f(x: u32) -> String { format!("v{}", x) }
fn main() {}
