#![allow(dead_code)]
use cachelito::cache;
#[cache(limt = 3)]
pub fn f(x: u32) -> String { format!("v{}", x) }
fn main() {}
