#![allow(dead_code)]
use cachelito::cache;
use cachelito_async::cache_async;
#[cache]
pub fn ctl_sync_unknown_foo(x: u32) -> String { format!("v{}", x) }
#[cache_async]
pub async fn ctl_async_unknown_foo(x: u32) -> String { format!("v{}", x) }
#[cache(limit = 3)]
pub fn ctl_sync_typo_limt(x: u32) -> String { format!("v{}", x) }
#[cache_async(limit = 3)]
pub async fn ctl_async_typo_limt(x: u32) -> String { format!("v{}", x) }
#[cache(policy = "lru")]
pub fn ctl_sync_typo_polcy(x: u32) -> String { format!("v{}", x) }
#[cache_async(policy = "lru")]
pub async fn ctl_async_typo_polcy(x: u32) -> String { format!("v{}", x) }
#[cache(max_memory = "1KB")]
pub fn ctl_sync_typo_max_mem(x: u32) -> String { format!("v{}", x) }
#[cache_async(max_memory = "1KB")]
pub async fn ctl_async_typo_max_mem(x: u32) -> String { format!("v{}", x) }
#[cache(tags = ["x"])]
pub fn ctl_sync_typo_tag(x: u32) -> String { format!("v{}", x) }
#[cache_async(tags = ["x"])]
pub async fn ctl_async_typo_tag(x: u32) -> String { format!("v{}", x) }
#[cache(ttl = 5)]
pub fn ctl_sync_typo_ttl_secs(x: u32) -> String { format!("v{}", x) }
#[cache_async(ttl = 5)]
pub async fn ctl_async_typo_ttl_secs(x: u32) -> String { format!("v{}", x) }
#[cache(scope = "thread")]
pub fn ctl_sync_typo_scop(x: u32) -> String { format!("v{}", x) }
#[cache(limit = 2, policy = "lru")]
pub fn ctl_sync_unknown_after_valid(x: u32) -> String { format!("v{}", x) }
#[cache_async(limit = 2, policy = "lru")]
pub async fn ctl_async_unknown_after_valid(x: u32) -> String { format!("v{}", x) }
#[cache(policy = "lru")]
pub fn ctl_sync_policy_mru(x: u32) -> String { format!("v{}", x) }
#[cache_async(policy = "lru")]
pub async fn ctl_async_policy_mru(x: u32) -> String { format!("v{}", x) }
#[cache(policy = "fifo")]
pub fn ctl_sync_policy_empty(x: u32) -> String { format!("v{}", x) }
#[cache_async(policy = "fifo")]
pub async fn ctl_async_policy_empty(x: u32) -> String { format!("v{}", x) }
#[cache(policy = "lru")]
pub fn ctl_sync_policy_ident(x: u32) -> String { format!("v{}", x) }
#[cache_async(policy = "lru")]
pub async fn ctl_async_policy_ident(x: u32) -> String { format!("v{}", x) }
#[cache(policy = "arc")]
pub fn ctl_sync_policy_int(x: u32) -> String { format!("v{}", x) }
#[cache_async(policy = "arc")]
pub async fn ctl_async_policy_int(x: u32) -> String { format!("v{}", x) }
#[cache(limit = 2, policy = "lru")]
pub fn ctl_sync_policy_lru_k(x: u32) -> String { format!("v{}", x) }
#[cache_async(limit = 2, policy = "lru")]
pub async fn ctl_async_policy_lru_k(x: u32) -> String { format!("v{}", x) }
#[cache(scope = "global")]
pub fn ctl_sync_scope_process(x: u32) -> String { format!("v{}", x) }
#[cache(scope = "thread")]
pub fn ctl_sync_scope_ident(x: u32) -> String { format!("v{}", x) }
#[cache(scope = "thread")]
pub fn ctl_sync_scope_int(x: u32) -> String { format!("v{}", x) }
#[cache(scope = "global")]
pub fn ctl_sync_scope_empty(x: u32) -> String { format!("v{}", x) }
#[cache(limit = 1)]
pub fn ctl_sync_limit_negative(x: u32) -> String { format!("v{}", x) }
#[cache_async(limit = 1)]
pub async fn ctl_async_limit_negative(x: u32) -> String { format!("v{}", x) }
#[cache(limit = 1)]
pub fn ctl_sync_limit_fraction(x: u32) -> String { format!("v{}", x) }
#[cache_async(limit = 1)]
pub async fn ctl_async_limit_fraction(x: u32) -> String { format!("v{}", x) }
#[cache(limit = 5)]
pub fn ctl_sync_limit_string(x: u32) -> String { format!("v{}", x) }
#[cache_async(limit = 5)]
pub async fn ctl_async_limit_string(x: u32) -> String { format!("v{}", x) }
#[cache(limit = 9)]
pub fn ctl_sync_limit_huge(x: u32) -> String { format!("v{}", x) }
#[cache_async(limit = 9)]
pub async fn ctl_async_limit_huge(x: u32) -> String { format!("v{}", x) }
#[cache(limit = 1)]
pub fn ctl_sync_limit_bool(x: u32) -> String { format!("v{}", x) }
#[cache_async(limit = 1)]
pub async fn ctl_async_limit_bool(x: u32) -> String { format!("v{}", x) }
#[cache(ttl = 1)]
pub fn ctl_sync_ttl_negative(x: u32) -> String { format!("v{}", x) }
#[cache_async(ttl = 1)]
pub async fn ctl_async_ttl_negative(x: u32) -> String { format!("v{}", x) }
#[cache(ttl = 2)]
pub fn ctl_sync_ttl_fraction(x: u32) -> String { format!("v{}", x) }
#[cache_async(ttl = 2)]
pub async fn ctl_async_ttl_fraction(x: u32) -> String { format!("v{}", x) }
#[cache(ttl = 10)]
pub fn ctl_sync_ttl_string(x: u32) -> String { format!("v{}", x) }
#[cache_async(ttl = 10)]
pub async fn ctl_async_ttl_string(x: u32) -> String { format!("v{}", x) }
#[cache(ttl = 9)]
pub fn ctl_sync_ttl_huge(x: u32) -> String { format!("v{}", x) }
#[cache_async(ttl = 9)]
pub async fn ctl_async_ttl_huge(x: u32) -> String { format!("v{}", x) }
#[cache(max_memory = "10KB")]
pub fn ctl_sync_mem_unknown_unit(x: u32) -> String { format!("v{}", x) }
#[cache_async(max_memory = "10KB")]
pub async fn ctl_async_mem_unknown_unit(x: u32) -> String { format!("v{}", x) }
#[cache(max_memory = "1MB")]
pub fn ctl_sync_mem_no_number(x: u32) -> String { format!("v{}", x) }
#[cache_async(max_memory = "1MB")]
pub async fn ctl_async_mem_no_number(x: u32) -> String { format!("v{}", x) }
#[cache(max_memory = "5MB")]
pub fn ctl_sync_mem_signed(x: u32) -> String { format!("v{}", x) }
#[cache_async(max_memory = "5MB")]
pub async fn ctl_async_mem_signed(x: u32) -> String { format!("v{}", x) }
#[cache(max_memory = "1MB")]
pub fn ctl_sync_mem_fraction(x: u32) -> String { format!("v{}", x) }
#[cache_async(max_memory = "1MB")]
pub async fn ctl_async_mem_fraction(x: u32) -> String { format!("v{}", x) }
#[cache(max_memory = "1KB")]
pub fn ctl_sync_mem_empty(x: u32) -> String { format!("v{}", x) }
#[cache_async(max_memory = "1KB")]
pub async fn ctl_async_mem_empty(x: u32) -> String { format!("v{}", x) }
#[cache(max_memory = 5000)]
pub fn ctl_sync_mem_negative_int(x: u32) -> String { format!("v{}", x) }
#[cache_async(max_memory = 5000)]
pub async fn ctl_async_mem_negative_int(x: u32) -> String { format!("v{}", x) }
#[cache(max_memory = 1500)]
pub fn ctl_sync_mem_float(x: u32) -> String { format!("v{}", x) }
#[cache_async(max_memory = 1500)]
pub async fn ctl_async_mem_float(x: u32) -> String { format!("v{}", x) }
#[cache(max_memory = 1000)]
pub fn ctl_sync_mem_bool(x: u32) -> String { format!("v{}", x) }
#[cache_async(max_memory = 1000)]
pub async fn ctl_async_mem_bool(x: u32) -> String { format!("v{}", x) }
#[cache(max_memory = "1MB")]
pub fn ctl_sync_mem_words(x: u32) -> String { format!("v{}", x) }
#[cache_async(max_memory = "1MB")]
pub async fn ctl_async_mem_words(x: u32) -> String { format!("v{}", x) }
fn main() {}
