#![allow(dead_code)]
use cachelito::cache;
#[cache(limit = 99999999999999999999999)]
pub fn f(x: u32) -> String { format!("v{}", x) }
fn main() {}
