#![allow(dead_code)]
use cachelito::cache;
#[cache(policy = "tlru", frequency_weight = 0.0)]
pub fn f(x: u32) -> String { format!("v{}", x) }
fn main() {}
