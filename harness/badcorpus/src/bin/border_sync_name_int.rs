#![allow(dead_code)]
use cachelito::cache;
#[cache(name = 5)]
pub fn f(x: u32) -> String { format!("v{}", x) }
fn main() {}
