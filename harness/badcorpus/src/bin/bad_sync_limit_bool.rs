#![allow(dead_code)]
use cachelito::cache;
#[cache(limit = true)]
pub fn f(x: u32) -> String { format!("v{}", x) }
fn main() {}
