#![allow(dead_code)]
use cachelito::cache;
#[cache(max_mem = "1KB")]
pub fn f(x: u32) -> String { format!("v{}", x) }
fn main() {}
