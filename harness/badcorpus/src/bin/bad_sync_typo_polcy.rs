#![allow(dead_code)]
use cachelito::cache;
#[cache(polcy = "lru")]
pub fn f(x: u32) -> String { format!("v{}", x) }
fn main() {}
