#![allow(dead_code)]
use cachelito_async::cache_async;
#[cache_async(limit = 99999999999999999999999)]
pub async fn f(x: u32) -> String { format!("v{}", x) }
fn main() {}
