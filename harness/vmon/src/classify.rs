//! Attribution of an unexplained observation to a property and a signature
//! (property|level|flavour|policy|kind|discriminator), shared by the L1 and L2 monitors.
use crate::model::{self, Cfg, Key, Policy, State};
use std::collections::{BTreeMap, BTreeSet};

pub fn pressure(cfg: &Cfg, pre: &State, k: Key, fp: usize) -> &'static str {
    let others: usize = pre.ents.iter().filter(|e| e.key != k).map(|e| e.fp).sum();
    let n_others = pre.ents.iter().filter(|e| e.key != k).count();
    let mem = cfg.max_memory.map_or(false, |m| others + fp > m);
    let lim = cfg.limit.map_or(false, |n| n_others + 1 > n);
    match (mem, lim) {
        (true, true) => "both",
        (true, false) => "memory",
        (false, true) => "limit",
        (false, false) => "none",
    }
}

pub fn sig(prop: &str, level: &str, cfg: &Cfg, kind: &str, disc: &str) -> String {
    format!("{}|{}|{}|{}|{}|{}", prop, level, cfg.flavour.name(), cfg.policy.name(), kind, disc)
}

/// Attributes a store whose observed successor no model outcome explains.
pub fn classify_store(level: &str, cfg: &Cfg, pre: &State, k: Key, val: u64, fp: usize, now: i64, post: &BTreeMap<Key, (u64, usize)>) -> (String, String, String) {
    let lim = if cfg.limit.is_some() { "some" } else { "none" };
    let mem = if cfg.max_memory.is_some() { "some" } else { "none" };
    let pr = pressure(cfg, pre, k, fp);
    let disc = format!("pressure={},limit={},mem={}", pr, lim, mem);
    let disc0 = String::new();
    // 1. keys from nowhere
    for kk in post.keys() {
        if *kk != k && pre.get(*kk).is_none() {
            return ("C01".into(), sig("C01", level, cfg, "phantom-key-after-store", &disc0), format!("key k{} present after store but never stored", kk));
        }
    }
    // 2. values
    for (kk, (v, _)) in post {
        let want = if *kk == k { val } else { pre.get(*kk).unwrap().val };
        if *v != want {
            let kind = if *kk == k { "replaced-value-not-stored" } else { "value-changed-by-other-store" };
            return ("C01".into(), sig("C01", level, cfg, kind, &disc0), format!("k{} holds value {:x}, expected {:x} (last store wins)", kk, v, want));
        }
    }
    // 3. bounds
    if let Some(n) = cfg.limit {
        if post.len() > n {
            return ("C04".into(), sig("C04", level, cfg, "limit-exceeded", &disc), format!("{} entries after store, limit {}", post.len(), n));
        }
    }
    if let Some(m) = cfg.max_memory {
        let tot: usize = post.values().map(|x| x.1).sum();
        if tot > m {
            return ("C05".into(), sig("C05", level, cfg, "memory-exceeded", &disc), format!("{} bytes cached after store, max_memory {}", tot, m));
        }
        if fp > m && post.contains_key(&k) {
            return ("C05".into(), sig("C05", level, cfg, "oversized-cached", &disc), "oversized value was cached".into());
        }
    }
    // 4. was every eviction needed?  (C04: no victim without overflow, one per overflow;
    //    C05: "only until the total fits and never while it already fits")
    let before: BTreeSet<Key> = pre.keys().into_iter().chain(std::iter::once(k)).collect();
    let removed: BTreeSet<Key> = before.iter().filter(|x| !post.contains_key(x)).copied().collect();
    let allowed = model::store(cfg, pre, k, val, fp, now);
    let allowed_sets: Vec<BTreeSet<Key>> = allowed.iter().map(|s| before.iter().filter(|x| s.get(**x).is_none()).copied().collect()).collect();
    let fp_of = |x: Key| -> usize { if x == k { fp } else { pre.get(x).map_or(0, |e| e.fp) } };
    let post_bytes: usize = post.values().map(|x| x.1).sum();
    // some removed entry r is "necessary" if putting it back breaks a bound: then the number of
    // evictions is explainable by *some* eviction order and the blame goes to the order (policy)
    let some_necessary = removed.iter().any(|r| {
        let over_mem = cfg.max_memory.map_or(false, |m| post_bytes + fp_of(*r) > m);
        let over_lim = cfg.limit.map_or(false, |n| post.len() + 1 > n);
        over_mem || over_lim
    });
    let limit_victims_max = if cfg.limit.is_some() { 1 } else { 0 };
    let too_many_for_limit_only = cfg.max_memory.is_none() && removed.len() > limit_victims_max;
    if !removed.is_empty() && (!some_necessary || too_many_for_limit_only) {
        let (p, kind) = if cfg.max_memory.is_some() && (pr == "memory" || pr == "both") { ("C05", "needless-eviction-under-memory-limit") } else if cfg.max_memory.is_some() && pr == "none" { ("C05", "eviction-while-everything-fits") } else { ("C04", "needless-or-multiple-eviction") };
        let p2 = if cfg.limit.is_some() && pr == "none" && cfg.max_memory.is_none() { "C04" } else { p };
        return (p2.into(), sig(p2, level, cfg, kind, &disc), format!("store removed {:?} although the cache was within its bounds without removing all of them; allowed victim sets {:?}", removed, allowed_sets));
    }
    if removed.is_empty() {
        return ("C04".into(), sig("C04", level, cfg, "store-outcome-unexplained", &disc), format!("nothing removed; allowed victim sets {:?}", allowed_sets));
    }
    // 5. plausible count, wrong victim(s): the eviction order is not the policy's
    let (p, kind) = match cfg.policy {
        Policy::Fifo => ("C07", "victim-not-oldest-stored"),
        Policy::Lru => ("C07", "victim-not-least-recently-used"),
        Policy::Lfu | Policy::Arc | Policy::Tlru => ("C08", "victim-not-score-minimiser"),
        Policy::Random => ("C05", "random-victims-not-minimal"),
    };
    (p.into(), sig(p, level, cfg, kind, &disc), format!("store removed {:?}; allowed victim sets {:?}", removed, allowed_sets))
}

pub fn classify_lookup(level: &str, cfg: &Cfg, pre: &State, k: Key, now: i64, got: Option<u64>, post: &BTreeMap<Key, (u64, usize)>) -> (String, String, String) {
    let ttl = if cfg.ttl.is_some() { "some" } else { "none" };
    let disc = format!("ttl={}", ttl);
    let e = pre.get(k);
    match (e, got) {
        (None, Some(v)) => return ("C01".into(), sig("C01", level, cfg, "hit-on-absent-key", &disc), format!("lookup k{} returned {:x} but nothing is stored for it", k, v)),
        (Some(en), Some(v)) => {
            let (_may_exp, may_live) = model::expiry_band(cfg, now - en.born);
            if !may_live {
                return ("C06".into(), sig("C06", level, cfg, "expired-entry-served", &disc), format!("k{} of age {} ns served, ttl {:?}", k, now - en.born, cfg.ttl));
            }
            if v != en.val {
                return ("C01".into(), sig("C01", level, cfg, "wrong-value", &disc), format!("lookup k{} returned {:x}, last stored {:x}", k, v, en.val));
            }
        }
        (Some(en), None) => {
            let (may_exp, _) = model::expiry_band(cfg, now - en.born);
            if !may_exp {
                let p = if cfg.ttl.is_some() { "C06" } else { "C04" };
                let kind = if cfg.ttl.is_some() { "live-entry-not-served" } else { "stored-entry-not-found" };
                return (p.into(), sig(p, level, cfg, kind, &disc), format!("k{} of age {} ns not served (ttl {:?})", k, now - en.born, cfg.ttl));
            }
        }
        (None, None) => {}
    }
    // result fine: the store must be unchanged except for a purged expired key
    let mut want: BTreeSet<Key> = pre.keys();
    if got.is_none() {
        want.remove(&k);
    }
    let have: BTreeSet<Key> = post.keys().copied().collect();
    if have.contains(&k) && got.is_none() && e.is_some() {
        return ("C06".into(), sig("C06", level, cfg, "expired-entry-not-purged", &disc), format!("k{} expired and looked up but still in the store", k));
    }
    if have != want {
        // the purge of an expired entry took entries younger than ttl with it (C06: "an entry
        // younger than T is still served unless it was evicted or invalidated")
        if e.is_some() && got.is_none() && have.is_subset(&want) {
            return ("C06".into(), sig("C06", level, cfg, "expired-purge-removed-live-entries", &disc), format!("lookup of the expired k{} left {:?} in the store, expected {:?}", k, have, want));
        }
        return ("C04".into(), sig("C04", level, cfg, "lookup-changed-other-entries", &disc), format!("store after lookup {:?}, expected {:?}", have, want));
    }
    for (kk, (v, _)) in post {
        if pre.get(*kk).map(|x| x.val) != Some(*v) {
            return ("C01".into(), sig("C01", level, cfg, "value-changed-by-lookup", &disc), format!("k{} value changed", kk));
        }
    }
    ("C15".into(), sig("C15", level, cfg, "core-counters", &disc), "hit/miss counters differ from the model".into())
}

