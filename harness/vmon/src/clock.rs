//! Virtual clock (DESIGN.md E2).  `install_virtual_clock!()` defines `clock_gettime` in the
//! *binary*; the static linker resolves std's references to it before libc's, so
//! `Instant::now()` and `SystemTime::now()` in cachelito read a clock the harness controls.
//! The clock is frozen unless `advance` is called.

use std::sync::atomic::{AtomicBool, AtomicI64, Ordering};

pub static V_NS: AtomicI64 = AtomicI64::new(0);
pub static BASE_MONO_NS: AtomicI64 = AtomicI64::new(0);
pub static BASE_REAL_NS: AtomicI64 = AtomicI64::new(0);
pub static READY: AtomicBool = AtomicBool::new(false);

fn raw_clock(clk: libc::clockid_t) -> i64 {
    let mut ts = libc::timespec { tv_sec: 0, tv_nsec: 0 };
    unsafe {
        libc::syscall(libc::SYS_clock_gettime, clk, &mut ts as *mut libc::timespec);
    }
    ts.tv_sec as i64 * 1_000_000_000 + ts.tv_nsec as i64
}

/// Real monotonic nanoseconds (bypasses the interposer) — for wall_s and watchdogs only.
pub fn real_mono_ns() -> i64 {
    raw_clock(libc::CLOCK_MONOTONIC)
}

/// Must be called once, first thing in `main`.  The wall clock is aligned to a whole second so
/// that async (whole-second) histories can be run aligned or deliberately unaligned.
pub fn init() {
    let mono = raw_clock(libc::CLOCK_MONOTONIC);
    let real = raw_clock(libc::CLOCK_REALTIME);
    BASE_MONO_NS.store(mono, Ordering::SeqCst);
    BASE_REAL_NS.store(real - real % 1_000_000_000, Ordering::SeqCst);
    V_NS.store(0, Ordering::SeqCst);
    READY.store(true, Ordering::SeqCst);
}

/// virtual nanoseconds since `init`
pub fn now() -> i64 {
    V_NS.load(Ordering::SeqCst)
}
pub fn advance(ns: i64) {
    V_NS.fetch_add(ns, Ordering::SeqCst);
}

/// The function the interposer delegates to.
pub unsafe fn virtual_clock_gettime(clk: libc::clockid_t, ts: *mut libc::timespec) -> libc::c_int {
    if !READY.load(Ordering::Relaxed) {
        return libc::syscall(libc::SYS_clock_gettime, clk, ts) as libc::c_int;
    }
    let v = V_NS.load(Ordering::SeqCst);
    let t = match clk {
        libc::CLOCK_REALTIME | libc::CLOCK_REALTIME_COARSE => BASE_REAL_NS.load(Ordering::Relaxed) + v,
        libc::CLOCK_MONOTONIC | libc::CLOCK_MONOTONIC_COARSE | libc::CLOCK_MONOTONIC_RAW | libc::CLOCK_BOOTTIME => {
            BASE_MONO_NS.load(Ordering::Relaxed) + v
        }
        _ => return libc::syscall(libc::SYS_clock_gettime, clk, ts) as libc::c_int,
    };
    (*ts).tv_sec = (t / 1_000_000_000) as libc::time_t;
    (*ts).tv_nsec = (t % 1_000_000_000) as libc::c_long;
    0
}

/// Sleep on the real clock without touching std's timed waits.
pub fn real_sleep_us(us: u64) {
    let ts = libc::timespec { tv_sec: (us / 1_000_000) as libc::time_t, tv_nsec: ((us % 1_000_000) * 1000) as libc::c_long };
    unsafe {
        libc::nanosleep(&ts, std::ptr::null_mut());
    }
}

#[macro_export]
macro_rules! install_virtual_clock {
    () => {
        #[no_mangle]
        pub unsafe extern "C" fn clock_gettime(clk: libc::clockid_t, ts: *mut libc::timespec) -> libc::c_int {
            $crate::clock::virtual_clock_gettime(clk, ts)
        }
    };
}
