pub mod clock;
pub mod model;
pub mod rng;
pub mod report;
pub mod classify;
pub mod wrapper;
pub mod lockmon;
