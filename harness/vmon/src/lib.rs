pub mod clock;
pub mod model;
pub mod rng;
pub mod report;
