//! Small deterministic PRNG (splitmix64 / xorshift) — every random choice in the harness
//! derives from VERIF_SEED through this.
#[derive(Clone, Debug)]
pub struct Rng(pub u64);
impl Rng {
    pub fn new(seed: u64) -> Self {
        let mut r = Rng(seed ^ 0x9E37_79B9_7F4A_7C15);
        r.next();
        r
    }
    /// derive an independent stream
    pub fn fork(&mut self, salt: u64) -> Rng {
        Rng::new(self.next() ^ salt.wrapping_mul(0xD6E8_FEB8_6659_FD93))
    }
    #[inline]
    pub fn next(&mut self) -> u64 {
        self.0 = self.0.wrapping_add(0x9E37_79B9_7F4A_7C15);
        let mut z = self.0;
        z = (z ^ (z >> 30)).wrapping_mul(0xBF58_476D_1CE4_E5B9);
        z = (z ^ (z >> 27)).wrapping_mul(0x94D0_49BB_1331_11EB);
        z ^ (z >> 31)
    }
    #[inline]
    pub fn below(&mut self, n: u64) -> u64 {
        if n == 0 {
            0
        } else {
            self.next() % n
        }
    }
    #[inline]
    pub fn usize(&mut self, n: usize) -> usize {
        self.below(n as u64) as usize
    }
    #[inline]
    pub fn chance(&mut self, num: u64, den: u64) -> bool {
        self.below(den) < num
    }
    pub fn pick<'a, T>(&mut self, xs: &'a [T]) -> &'a T {
        &xs[self.usize(xs.len())]
    }
    /// Zipf-ish skew over 0..n: small indices much more likely
    pub fn skewed(&mut self, n: usize) -> usize {
        let a = self.usize(n);
        let b = self.usize(n);
        a.min(b)
    }
}

pub fn seed_from_env() -> u64 {
    std::env::var("VERIF_SEED").ok().and_then(|s| s.trim().parse::<u64>().ok()).unwrap_or(1)
}
