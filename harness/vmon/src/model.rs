//! The executable specification (DESIGN.md §2), written from the property statements C01–C16,
//! not from cachelito's code, plus the belief monitor that compares it with observations.
//!
//! The model is nondeterministic exactly where the properties are: random victims, score ties,
//! the async whole-second TTL band, whether the entry being stored competes for eviction, and
//! whether an oversized value drops the key's previous entry.

use std::collections::BTreeSet;

pub type Key = u32;

#[derive(Clone, Copy, Debug, PartialEq, Eq, Hash, PartialOrd, Ord)]
pub enum Flavour {
    Global,
    Thread,
    Async,
}
impl Flavour {
    pub fn name(self) -> &'static str {
        match self {
            Flavour::Global => "global",
            Flavour::Thread => "thread",
            Flavour::Async => "async",
        }
    }
}

#[derive(Clone, Copy, Debug, PartialEq, Eq, Hash, PartialOrd, Ord)]
pub enum Policy {
    Fifo,
    Lru,
    Lfu,
    Arc,
    Random,
    Tlru,
}
impl Policy {
    pub const ALL: [Policy; 6] =
        [Policy::Fifo, Policy::Lru, Policy::Lfu, Policy::Arc, Policy::Random, Policy::Tlru];
    pub fn name(self) -> &'static str {
        match self {
            Policy::Fifo => "fifo",
            Policy::Lru => "lru",
            Policy::Lfu => "lfu",
            Policy::Arc => "arc",
            Policy::Random => "random",
            Policy::Tlru => "tlru",
        }
    }
    pub fn from_name(s: &str) -> Option<Policy> {
        Policy::ALL.iter().copied().find(|p| p.name() == s)
    }
}

#[derive(Clone, Copy, Debug, PartialEq)]
pub struct Cfg {
    pub flavour: Flavour,
    pub policy: Policy,
    pub limit: Option<usize>,
    pub ttl: Option<u64>,
    pub max_memory: Option<usize>,
    pub fw: Option<f64>,
    /// async only: the history keeps the clock on whole seconds, so the whole-second age the
    /// async engine measures *is* the exact age (TLRU's remaining-lifetime fraction is then a
    /// point, not an interval)
    pub age_exact: bool,
}
impl Cfg {
    pub fn describe(&self) -> String {
        format!(
            "{}/{}/limit={:?}/ttl={:?}/mem={:?}/fw={:?}",
            self.flavour.name(),
            self.policy.name(),
            self.limit,
            self.ttl,
            self.max_memory,
            self.fw
        )
    }
}

pub const SEC: i64 = 1_000_000_000;

#[derive(Clone, Debug, PartialEq, Eq, Hash, PartialOrd, Ord)]
pub struct Ent {
    pub key: Key,
    pub val: u64,
    /// virtual time of the store, ns
    pub born: i64,
    /// successful lookups since the store
    pub hits: u64,
    /// logical time of last use (store or successful lookup)
    pub last_use: u64,
    /// logical time of the store
    pub stored_at: u64,
    /// bytes, as defined by the footprint oracle
    pub fp: usize,
}

#[derive(Clone, Debug, PartialEq, Eq, Hash, PartialOrd, Ord, Default)]
pub struct State {
    /// sorted by key
    pub ents: Vec<Ent>,
    pub tick: u64,
    pub hits: u64,
    pub misses: u64,
}

impl State {
    pub fn keys(&self) -> BTreeSet<Key> {
        self.ents.iter().map(|e| e.key).collect()
    }
    pub fn get(&self, k: Key) -> Option<&Ent> {
        self.ents.iter().find(|e| e.key == k)
    }
    fn remove(&mut self, k: Key) -> Option<Ent> {
        let i = self.ents.iter().position(|e| e.key == k)?;
        Some(self.ents.remove(i))
    }
    fn put(&mut self, e: Ent) {
        self.remove(e.key);
        let i = self.ents.iter().position(|x| x.key > e.key).unwrap_or(self.ents.len());
        self.ents.insert(i, e);
    }
    pub fn total_fp(&self) -> usize {
        self.ents.iter().map(|e| e.fp).sum()
    }
    pub fn clear_entries(&mut self) {
        self.ents.clear();
    }
    pub fn remove_keys(&mut self, ks: &BTreeSet<Key>) {
        self.ents.retain(|e| !ks.contains(&e.key));
    }
}

#[derive(Clone, Debug, PartialEq, Eq, Hash, PartialOrd, Ord)]
pub enum LookupOut {
    Hit(u64),
    Miss,
}

// ------------------------------------------------------------------------------------------
// expiry
// ------------------------------------------------------------------------------------------
/// `t` seconds in nanoseconds, saturating: a ttl too large for the clock never elapses.
pub fn ttl_ns(t: u64) -> i64 {
    i64::try_from(t).ok().and_then(|t| t.checked_mul(SEC)).unwrap_or(i64::MAX)
}
/// ttls the virtual clock can actually reach (histories aim their advances at these only)
pub fn ttl_reachable(t: u64) -> bool {
    t <= 100_000
}

/// (may_be_expired, may_be_live) for an entry of exact age `age_ns` (C06).
/// sync: exact at the second boundary; async: whole-second band.
pub fn expiry_band(cfg: &Cfg, age_ns: i64) -> (bool, bool) {
    match cfg.ttl {
        None => (false, true),
        Some(t) => {
            let t_ns = ttl_ns(t);
            match cfg.flavour {
                Flavour::Async => {
                    let must_expire = age_ns >= t_ns;
                    let must_live = age_ns < t_ns - SEC;
                    (!must_live, !must_expire)
                }
                _ => {
                    let exp = age_ns >= t_ns;
                    (exp, !exp)
                }
            }
        }
    }
}

// ------------------------------------------------------------------------------------------
// lookup
// ------------------------------------------------------------------------------------------
/// All (outcome, successor) pairs the properties allow for `lookup(k)` at virtual time `now`.
pub fn lookup(cfg: &Cfg, st: &State, k: Key, now: i64) -> Vec<(LookupOut, State)> {
    let mut out = Vec::with_capacity(2);
    let mut base = st.clone();
    base.tick += 1;
    match st.get(k) {
        None => {
            base.misses += 1;
            out.push((LookupOut::Miss, base));
        }
        Some(e) => {
            let (may_exp, may_live) = expiry_band(cfg, now - e.born);
            if may_exp {
                // expired: never served, purged on access (C06)
                let mut s = base.clone();
                s.remove(k);
                s.misses += 1;
                out.push((LookupOut::Miss, s));
            }
            if may_live {
                let mut s = base.clone();
                let tick = s.tick;
                let v = {
                    let i = s.ents.iter().position(|x| x.key == k).unwrap();
                    let en = &mut s.ents[i];
                    en.hits += 1;
                    en.last_use = tick;
                    en.val
                };
                s.hits += 1;
                out.push((LookupOut::Hit(v), s));
            }
        }
    }
    out
}

// ------------------------------------------------------------------------------------------
// victims
// ------------------------------------------------------------------------------------------
fn approx_le(a: f64, b: f64) -> bool {
    // a <= b up to a relative 1e-9 (never lets float noise produce an alarm)
    a <= b + 1e-9 * b.abs().max(a.abs())
}

/// score interval [lo, hi] of candidate `e` among `cands` (C08).  For the sync engines the
/// interval is a point; for async TLRU with a ttl the age is only known to ±1 s.
fn score(cfg: &Cfg, e: &Ent, cands: &[&Ent], now: i64) -> (f64, f64) {
    // 1-based rank in ascending last_use order: more recently used => higher
    let rank = 1 + cands.iter().filter(|c| c.last_use < e.last_use).count();
    let rank = rank as f64;
    let hits = e.hits as f64;
    match cfg.policy {
        Policy::Lfu => (hits, hits),
        Policy::Arc => (hits * rank, hits * rank),
        Policy::Tlru => {
            let w = cfg.fw.unwrap_or(1.0);
            let f = if e.hits == 0 { 0.0 } else { hits.powf(w) };
            match cfg.ttl {
                None => (f * rank, f * rank),
                Some(t) => {
                    let t = t as f64;
                    let age = (now - e.born) as f64 / SEC as f64;
                    // (ttl = 0: nothing of the lifetime is ever left, every score is 0)
                    let rem = |a: f64| if t == 0.0 { 0.0 } else { (1.0 - (a / t)).clamp(0.0, 1.0) };
                    if cfg.flavour == Flavour::Async && !cfg.age_exact {
                        let lo_age = (age - 1.0).max(0.0);
                        let hi_age = age + 1.0;
                        (f * rank * rem(hi_age), f * rank * rem(lo_age))
                    } else {
                        let s = f * rank * rem(age);
                        (s, s)
                    }
                }
            }
        }
        _ => (0.0, 0.0),
    }
}

/// The set of keys the policy may evict from `cands` (non-empty if `cands` is).
pub fn victims(cfg: &Cfg, cands: &[&Ent], now: i64) -> Vec<Key> {
    if cands.is_empty() {
        return vec![];
    }
    match cfg.policy {
        Policy::Fifo => {
            let m = cands.iter().map(|e| e.stored_at).min().unwrap();
            cands.iter().filter(|e| e.stored_at == m).map(|e| e.key).collect()
        }
        Policy::Lru => {
            let m = cands.iter().map(|e| e.last_use).min().unwrap();
            cands.iter().filter(|e| e.last_use == m).map(|e| e.key).collect()
        }
        Policy::Random => cands.iter().map(|e| e.key).collect(),
        Policy::Lfu | Policy::Arc | Policy::Tlru => {
            let sc: Vec<(f64, f64)> = cands.iter().map(|e| score(cfg, e, cands, now)).collect();
            // v may be chosen iff its lowest possible score is <= every other's highest possible
            let mut out = vec![];
            for (i, e) in cands.iter().enumerate() {
                let ok = sc.iter().enumerate().all(|(j, s)| j == i || approx_le(sc[i].0, s.1));
                if ok {
                    out.push(e.key);
                }
            }
            if out.is_empty() {
                // cannot happen (the global minimiser of hi always qualifies); be permissive
                out = cands.iter().map(|e| e.key).collect();
            }
            out
        }
    }
}

// ------------------------------------------------------------------------------------------
// store
// ------------------------------------------------------------------------------------------
/// All successors the properties allow for `store(k, val)` (footprint `fp`) at time `now`.
pub fn store(cfg: &Cfg, st: &State, k: Key, val: u64, fp: usize, now: i64) -> Vec<State> {
    let mut base = st.clone();
    base.tick += 1;
    let tick = base.tick;
    let e = Ent { key: k, val, born: now, hits: 0, last_use: tick, stored_at: tick, fp };
    let mut out: BTreeSet<State> = BTreeSet::new();

    if let Some(m) = cfg.max_memory {
        if fp > m {
            // oversized: not cached, nothing else displaced; the key's own previous entry may
            // or may not survive (C05)
            out.insert(base.clone());
            let mut s = base.clone();
            s.remove(k);
            out.insert(s);
            return out.into_iter().collect();
        }
    }

    // ---- variant A: the new entry is placed first and competes for eviction
    {
        let mut s = base.clone();
        s.put(e.clone());
        let mut frontier = vec![s];
        if let Some(m) = cfg.max_memory {
            frontier = evict_while(cfg, frontier, now, |s| s.total_fp() > m);
        }
        if let Some(n) = cfg.limit {
            frontier = evict_once_if(cfg, frontier, now, |s| s.ents.len() > n);
        }
        out.extend(frontier);
    }
    // ---- variant B: room is made among the residents first, then the entry is placed
    {
        let mut s = base.clone();
        s.remove(k);
        let mut frontier = vec![s];
        if let Some(m) = cfg.max_memory {
            frontier = evict_while(cfg, frontier, now, |s| s.total_fp() + fp > m);
        }
        if let Some(n) = cfg.limit {
            frontier = evict_once_if(cfg, frontier, now, |s| s.ents.len() + 1 > n);
        }
        for mut s in frontier {
            s.put(e.clone());
            out.insert(s);
        }
    }
    out.into_iter().collect()
}

fn evict_once_if(cfg: &Cfg, frontier: Vec<State>, now: i64, over: impl Fn(&State) -> bool) -> Vec<State> {
    let mut next: BTreeSet<State> = BTreeSet::new();
    for s in frontier {
        if !over(&s) {
            next.insert(s);
            continue;
        }
        let cands: Vec<&Ent> = s.ents.iter().collect();
        let vs = victims(cfg, &cands, now);
        if vs.is_empty() {
            next.insert(s);
            continue;
        }
        for v in vs {
            let mut t = s.clone();
            t.remove(v);
            next.insert(t);
        }
    }
    next.into_iter().collect()
}

fn evict_while(cfg: &Cfg, frontier: Vec<State>, now: i64, over: impl Fn(&State) -> bool) -> Vec<State> {
    let mut done: BTreeSet<State> = BTreeSet::new();
    let mut work: Vec<State> = frontier;
    let mut seen: BTreeSet<State> = BTreeSet::new();
    while let Some(s) = work.pop() {
        if !seen.insert(s.clone()) {
            continue;
        }
        if !over(&s) || s.ents.is_empty() {
            done.insert(s);
            continue;
        }
        let cands: Vec<&Ent> = s.ents.iter().collect();
        for v in victims(cfg, &cands, now) {
            let mut t = s.clone();
            t.remove(v);
            work.push(t);
        }
    }
    done.into_iter().collect()
}

// ------------------------------------------------------------------------------------------
// belief
// ------------------------------------------------------------------------------------------
pub const BELIEF_CAP: usize = 256;

#[derive(Clone, Debug)]
pub struct Belief {
    pub states: Vec<State>,
}

#[derive(Debug)]
pub enum Step {
    /// belief after filtering is non-empty
    Ok,
    /// no model state explains the observation: a violation of the specification
    Empty { before: Vec<State>, allowed: Vec<String> },
    /// the belief exceeded the cap; the history must be closed as inconclusive
    Overflow,
}

impl Belief {
    pub fn new() -> Self {
        Belief { states: vec![State::default()] }
    }
    pub fn single(&self) -> Option<&State> {
        if self.states.len() == 1 {
            self.states.first()
        } else {
            None
        }
    }
    /// Advances every state with `f` (which returns the successors compatible with the
    /// observation, plus a description of everything that would have been allowed).
    pub fn advance(&mut self, mut f: impl FnMut(&State) -> (Vec<State>, Vec<String>)) -> Step {
        let mut next: BTreeSet<State> = BTreeSet::new();
        let mut allowed = vec![];
        for s in &self.states {
            let (succ, al) = f(s);
            next.extend(succ);
            if allowed.len() < 12 {
                allowed.extend(al);
            }
        }
        if next.is_empty() {
            let before = std::mem::take(&mut self.states);
            allowed.truncate(12);
            return Step::Empty { before, allowed };
        }
        if next.len() > BELIEF_CAP {
            return Step::Overflow;
        }
        self.states = next.into_iter().collect();
        Step::Ok
    }
    /// Replace the belief by one adopted state (after a known finding, so that one defect does
    /// not mask the rest of the history).
    pub fn adopt(&mut self, s: State) {
        self.states = vec![s];
    }
}

pub fn fmt_state(s: &State) -> String {
    let mut v = vec![];
    for e in &s.ents {
        v.push(format!(
            "k{}(v={:x},hits={},lu={},st={},fp={},born={})",
            e.key,
            e.val & 0xffff,
            e.hits,
            e.last_use,
            e.stored_at,
            e.fp,
            e.born
        ));
    }
    format!("[{}]", v.join(" "))
}

#[cfg(test)]
mod tests {
    use super::*;
    fn cfg(p: Policy, limit: Option<usize>) -> Cfg {
        Cfg { flavour: Flavour::Global, policy: p, limit, ttl: None, max_memory: None, fw: None, age_exact: false }
    }
    #[test]
    fn fifo_evicts_oldest() {
        let c = cfg(Policy::Fifo, Some(2));
        let mut s = State::default();
        for k in 0..2 {
            s = store(&c, &s, k, k as u64, 8, 0).pop().unwrap();
        }
        let (_, s2) = lookup(&c, &s, 0, 0).pop().unwrap();
        let outs = store(&c, &s2, 2, 2, 8, 0);
        assert_eq!(outs.len(), 1);
        assert_eq!(outs[0].keys().into_iter().collect::<Vec<_>>(), vec![1, 2]);
    }
    #[test]
    fn lru_evicts_least_recent() {
        let c = cfg(Policy::Lru, Some(2));
        let mut s = State::default();
        for k in 0..2 {
            s = store(&c, &s, k, k as u64, 8, 0).pop().unwrap();
        }
        let (_, s2) = lookup(&c, &s, 0, 0).pop().unwrap();
        let outs = store(&c, &s2, 2, 2, 8, 0);
        assert_eq!(outs.len(), 1);
        assert_eq!(outs[0].keys().into_iter().collect::<Vec<_>>(), vec![0, 2]);
    }
    #[test]
    fn lfu_both_variants() {
        let c = cfg(Policy::Lfu, Some(2));
        let mut s = State::default();
        for k in 0..2 {
            s = store(&c, &s, k, k as u64, 8, 0).pop().unwrap();
        }
        for _ in 0..3 {
            s = lookup(&c, &s, 0, 0).pop().unwrap().1;
        }
        s = lookup(&c, &s, 1, 0).pop().unwrap().1;
        // residents: k0 hits 3, k1 hits 1; newcomer hits 0
        let outs = store(&c, &s, 2, 2, 8, 0);
        let sets: BTreeSet<Vec<Key>> = outs.iter().map(|s| s.keys().into_iter().collect()).collect();
        // A: newcomer evicted -> {0,1}; B: k1 evicted -> {0,2}
        assert!(sets.contains(&vec![0, 1]));
        assert!(sets.contains(&vec![0, 2]));
        assert_eq!(sets.len(), 2);
    }
    #[test]
    fn arc_recency_breaks_popularity_tie() {
        let mut c = cfg(Policy::Arc, Some(2));
        c.flavour = Flavour::Async;
        let mut s = State::default();
        for k in 0..2 {
            s = store(&c, &s, k, k as u64, 8, 0).pop().unwrap();
        }
        s = lookup(&c, &s, 0, 0).pop().unwrap().1;
        s = lookup(&c, &s, 1, 0).pop().unwrap().1;
        // equal hits; k0 used less recently => among residents k0 must go (variant B);
        // variant A evicts the zero-score newcomer
        let outs = store(&c, &s, 2, 2, 8, 0);
        let sets: BTreeSet<Vec<Key>> = outs.iter().map(|s| s.keys().into_iter().collect()).collect();
        assert!(sets.contains(&vec![1, 2]));
        assert!(sets.contains(&vec![0, 1]));
        assert!(!sets.contains(&vec![0, 2]));
    }
    #[test]
    fn ttl_sync_boundary() {
        let mut c = cfg(Policy::Fifo, None);
        c.ttl = Some(2);
        let s = store(&c, &State::default(), 0, 7, 8, 0).pop().unwrap();
        let o = lookup(&c, &s, 0, 2 * SEC - 1);
        assert_eq!(o.len(), 1);
        assert_eq!(o[0].0, LookupOut::Hit(7));
        let o = lookup(&c, &s, 0, 2 * SEC);
        assert_eq!(o.len(), 1);
        assert_eq!(o[0].0, LookupOut::Miss);
        assert!(o[0].1.ents.is_empty());
    }
    #[test]
    fn memory_minimal_eviction() {
        let mut c = cfg(Policy::Fifo, None);
        c.max_memory = Some(100);
        let mut s = State::default();
        for k in 0..3 {
            s = store(&c, &s, k, k as u64, 30, 0).pop().unwrap();
        }
        // 90 used; storing 40 needs exactly one eviction (k0)
        let outs = store(&c, &s, 3, 3, 40, 0);
        let sets: BTreeSet<Vec<Key>> = outs.iter().map(|s| s.keys().into_iter().collect()).collect();
        assert_eq!(sets.len(), 1);
        assert!(sets.contains(&vec![1, 2, 3]));
        // oversized
        let outs = store(&c, &s, 1, 9, 101, 0);
        let sets: BTreeSet<Vec<Key>> = outs.iter().map(|s| s.keys().into_iter().collect()).collect();
        assert!(sets.contains(&vec![0, 1, 2]));
        assert!(sets.contains(&vec![0, 2]));
    }
}
