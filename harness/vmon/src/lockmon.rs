//! Lock monitor and schedulers (DESIGN.md E3/E4), driven by the hook in the vendored lock_api:
//! every parking_lot Mutex/RwLock and every DashMap shard lock in the process reports
//! attempt / acquired / releasing / released events here, on the acting thread.
//!
//! * always (when installed): a per-thread stack of held locks (`held_now`) — used for the
//!   "no lock held at a suspension point" check (C20) and for witnesses;
//! * `Mode::Serial`: baton-passing randomised scheduler.  Workers run one at a time; at every
//!   lock event, body entry and API-call boundary the baton may move.  A worker whose pending
//!   acquisition conflicts with the shadow holders is disabled.  "Some worker unfinished and none
//!   enabled" is a deadlock — decided on logical state, no timing involved (C17);
//! * `Mode::Jitter`: free-running threads with seeded random delays at attempt/released events
//!   (between nested acquisitions and between critical sections); a shadow wait-for graph is kept
//!   so that a stuck run can be diagnosed as a cycle (verdict) or not (inconclusive).

use crate::rng::Rng;
use std::cell::{Cell, RefCell};
use std::collections::{BTreeSet, HashMap};
use std::panic::Location;
use std::sync::atomic::{AtomicU64, AtomicU8, Ordering};
use std::sync::{Condvar, Mutex};

#[derive(Clone, Copy, Debug, PartialEq, Eq)]
pub enum Mode {
    Off = 0,
    Track = 1,
    Serial = 2,
    Jitter = 3,
}
static MODE: AtomicU8 = AtomicU8::new(0);
pub static EVENTS: AtomicU64 = AtomicU64::new(0);
/// Marker that starts the message of the panic raised instead of a certain self-deadlock.
pub const SELF_DEADLOCK: &str = "VERIF-SELF-DEADLOCK";
static SELF_DEADLOCK_PANICS: std::sync::atomic::AtomicBool = std::sync::atomic::AtomicBool::new(false);
/// Sequential monitors: a *blocking* acquisition of a lock the same thread already holds in a
/// conflicting mode (parking_lot locks are not re-entrant) would block forever.  With this on,
/// the hook panics with `SELF_DEADLOCK` before the real acquisition instead, so the monitor can
/// report the observation and go on.
pub fn self_deadlock_panics(on: bool) {
    SELF_DEADLOCK_PANICS.store(on, Ordering::SeqCst);
}

pub fn mode() -> Mode {
    match MODE.load(Ordering::Relaxed) {
        1 => Mode::Track,
        2 => Mode::Serial,
        3 => Mode::Jitter,
        _ => Mode::Off,
    }
}

#[derive(Clone, Copy, Debug)]
pub struct Held {
    pub lock: usize,
    pub excl: bool,
    pub site: &'static Location<'static>,
}

thread_local! {
    static WORKER: Cell<usize> = Cell::new(usize::MAX);
    static HELD: RefCell<Vec<Held>> = RefCell::new(Vec::new());
    static JRNG: RefCell<Rng> = RefCell::new(Rng::new(0));
    static IN_HOOK: Cell<bool> = Cell::new(false);
    /// was the lock released last by this thread acquired from library-internal code (DashMap)?
    static LAST_RELEASED_INTERNAL: Cell<bool> = Cell::new(false);
}

/// lock sites inside DashMap's own code (shard locks taken by its map operations)
fn internal_site(s: &'static Location<'static>) -> bool {
    s.file().contains("dashmap")
}

/// locks currently held by the calling thread, innermost last
pub fn held_now() -> Vec<Held> {
    HELD.with(|h| h.borrow().clone())
}
pub fn fmt_site(s: &'static Location<'static>) -> String {
    let f = s.file();
    let short = f.rsplit('/').take(2).collect::<Vec<_>>().into_iter().rev().collect::<Vec<_>>().join("/");
    format!("{}:{}", short, s.line())
}

#[derive(Clone, Copy, Debug)]
struct Pending {
    lock: usize,
    excl: bool,
    site: &'static Location<'static>,
}

#[derive(Clone, Debug)]
pub struct DeadlockReport {
    /// per unfinished worker: (worker, wants lock, wants excl, at site, holds [(lock, excl, site)])
    pub threads: Vec<(usize, usize, bool, String, Vec<(usize, bool, String)>)>,
    pub steps: u64,
}
impl DeadlockReport {
    /// order-insensitive signature: the sorted set of "holds-site -> wants-site" pairs
    pub fn signature(&self) -> String {
        let mut v: Vec<String> = self
            .threads
            .iter()
            .map(|(_, _, _, want, holds)| format!("[{}]->{}", holds.iter().map(|h| h.2.clone()).collect::<Vec<_>>().join("+"), want))
            .collect();
        v.sort();
        v.dedup();
        v.join(" & ")
    }
    pub fn to_json(&self) -> serde_json::Value {
        serde_json::json!({
            "steps": self.steps,
            "threads": self.threads.iter().map(|(w, l, x, site, holds)| serde_json::json!({
                "worker": w, "waits_for_lock": format!("{:x}", l), "exclusive": x, "at": site,
                "holds": holds.iter().map(|(l, x, s)| serde_json::json!({"lock": format!("{:x}", l), "exclusive": x, "acquired_at": s})).collect::<Vec<_>>() })).collect::<Vec<_>>()
        })
    }
}

struct Shared {
    n: usize,
    /// lock -> holders (worker, excl, site)
    holders: HashMap<usize, Vec<(usize, bool, &'static Location<'static>)>>,
    pending: Vec<Option<Pending>>,
    finished: Vec<bool>,
    started: Vec<bool>,
    cur: usize,
    rng: Rng,
    /// probability (per mille) that the baton moves at a yield point when the current worker could continue
    switch_pm: u64,
    trace_hash: u64,
    steps: u64,
    switches: u64,
    deadlock: Option<DeadlockReport>,
    /// coarse strategy: the baton only moves at cachelito-level lock events, body entries and
    /// API-call boundaries (DashMap-internal shard lock events are passed through unless the
    /// acquisition would block), which makes long uninterrupted runs of one thread likely
    coarse: bool,
    /// model the writer preference of parking_lot's RwLock (see `writer_queued`)
    writer_pref: bool,
    /// lock-order edges observed: (held-site, wanted-site)
    edges: BTreeSet<(String, String)>,
    aborted: bool,
}

static SH: Mutex<Option<Shared>> = Mutex::new(None);
static CV: Condvar = Condvar::new();

pub fn install() {
    lock_api::verif_hook::set(hook);
    if mode() == Mode::Off {
        MODE.store(Mode::Track as u8, Ordering::SeqCst);
    }
}

fn conflicts(holders: &[(usize, bool, &'static Location<'static>)], me: usize, excl: bool) -> bool {
    holders.iter().any(|(w, hx, _)| if *w == me { excl || *hx } else { excl || *hx })
}

/// parking_lot's RwLock is writer-preferring: once a writer is queued (it has attempted the lock
/// and is blocked by the current readers), new shared acquisitions wait behind it - including a
/// *recursive* `read()` by a thread that already holds the lock shared, which therefore
/// deadlocks.  Modelled for parking_lot locks only (not for DashMap's shard locks).
fn writer_queued(sh: &Shared, w: usize, p: &Pending) -> bool {
    if p.excl || internal_site(p.site) {
        return false;
    }
    (0..sh.n).any(|u| {
        u != w
            && sh.started[u]
            && !sh.finished[u]
            && sh.pending[u].map_or(false, |q| q.lock == p.lock && q.excl && sh.holders.get(&q.lock).map_or(false, |hs| conflicts(hs, u, true)))
    })
}

fn enabled(sh: &Shared, w: usize) -> bool {
    if sh.finished[w] || !sh.started[w] {
        return false;
    }
    match sh.pending[w] {
        None => true,
        Some(p) => {
            if sh.writer_pref && writer_queued(sh, w, &p) {
                return false;
            }
            match sh.holders.get(&p.lock) {
                None => true,
                Some(hs) => !conflicts(hs, w, p.excl),
            }
        }
    }
}

fn build_deadlock(sh: &Shared) -> DeadlockReport {
    // wait-for edges: w -> holders that block w's pending acquisition
    let mut blockers: HashMap<usize, Vec<(usize, usize)>> = HashMap::new(); // w -> [(holder, lock)]
    for w in 0..sh.n {
        if sh.finished[w] || !sh.started[w] {
            continue;
        }
        if let Some(p) = sh.pending[w] {
            if let Some(hs) = sh.holders.get(&p.lock) {
                for (hw, hx, _) in hs {
                    if p.excl || *hx {
                        blockers.entry(w).or_default().push((*hw, p.lock));
                    }
                }
            }
            // a shared acquisition also waits for a queued writer (writer preference)
            if !p.excl && !internal_site(p.site) {
                for u in 0..sh.n {
                    if u != w && !sh.finished[u] && sh.pending[u].map_or(false, |q| q.lock == p.lock && q.excl) {
                        blockers.entry(w).or_default().push((u, p.lock));
                    }
                }
            }
        }
    }
    // find one cycle (a self-loop counts) and report exactly its members; threads merely queued
    // behind the cycle are left out so that the signature identifies the lock-order inversion
    let mut cycle: Vec<usize> = vec![];
    'outer: for start in 0..sh.n {
        let mut path = vec![start];
        let mut cur = start;
        for _ in 0..=sh.n {
            let next = match blockers.get(&cur).and_then(|v| v.first()) {
                Some((h, _)) => *h,
                None => break,
            };
            if let Some(pos) = path.iter().position(|x| *x == next) {
                cycle = path[pos..].to_vec();
                break 'outer;
            }
            path.push(next);
            cur = next;
        }
    }
    let members: Vec<usize> = if cycle.is_empty() { (0..sh.n).filter(|w| sh.started[*w] && !sh.finished[*w]).collect() } else { cycle.clone() };
    // locks some cycle member is waiting for
    let wanted: BTreeSet<usize> = members.iter().filter_map(|w| sh.pending[*w].map(|p| p.lock)).collect();
    let mut threads = vec![];
    for w in members {
        if let Some(p) = sh.pending[w] {
            let mut holds = vec![];
            for (l, hs) in &sh.holders {
                for (hw, hx, site) in hs {
                    if *hw == w && (wanted.contains(l) || cycle.is_empty()) {
                        holds.push((*l, *hx, fmt_site(site)));
                    }
                }
            }
            holds.sort();
            threads.push((w, p.lock, p.excl, fmt_site(p.site), holds));
        }
    }
    DeadlockReport { threads, steps: sh.steps }
}

/// Called by a worker at a yield point (holding no scheduler lock).  Returns when the worker
/// owns the baton again.  If the run deadlocks, every worker parks forever and the controller
/// (see `run_serial`) reports.
fn yield_point(me: usize, pending: Option<Pending>, internal: bool) {
    let mut g = SH.lock().unwrap();
    {
        let sh = match g.as_mut() {
            Some(s) => s,
            None => return,
        };
        if sh.coarse && internal && !sh.aborted {
            // pass through unless this acquisition would block
            let blocked = match pending {
                None => false,
                Some(p) => sh.holders.get(&p.lock).map_or(false, |hs| conflicts(hs, me, p.excl)),
            };
            if !blocked {
                sh.steps += 1;
                return;
            }
        }
        if sh.aborted {
            drop(g);
            park_forever();
        }
        sh.pending[me] = pending;
        sh.steps += 1;
        // lock-order edges
        if let Some(p) = pending {
            let mine: Vec<String> = HELD.with(|h| h.borrow().iter().map(|x| fmt_site(x.site)).collect());
            for m in mine {
                if sh.edges.len() < 4096 {
                    sh.edges.insert((m, fmt_site(p.site)));
                }
            }
        }
        let en: Vec<usize> = (0..sh.n).filter(|w| enabled(sh, *w)).collect();
        if en.is_empty() {
            if (0..sh.n).any(|w| sh.started[w] && !sh.finished[w]) {
                sh.deadlock = Some(build_deadlock(sh));
                sh.aborted = true;
                sh.cur = usize::MAX;
                CV.notify_all();
                drop(g);
                park_forever();
            }
            return;
        }
        let me_ok = en.contains(&me);
        let next = if me_ok && !sh.rng.chance(sh.switch_pm, 1000) { me } else { en[sh.rng.usize(en.len())] };
        if next != me {
            sh.switches += 1;
        }
        sh.trace_hash = (sh.trace_hash ^ (next as u64 + 1)).wrapping_mul(0x0000_0100_0000_01B3);
        sh.cur = next;
    }
    CV.notify_all();
    loop {
        let sh = g.as_ref().unwrap();
        if sh.cur == me {
            break;
        }
        if sh.aborted {
            drop(g);
            park_forever();
        }
        g = CV.wait(g).unwrap();
    }
    if let Some(sh) = g.as_mut() {
        sh.pending[me] = None;
    }
}

fn park_forever() -> ! {
    loop {
        std::thread::park();
    }
}

fn hook(kind: u8, lock: usize, site: &'static Location<'static>) {
    let m = mode();
    if m == Mode::Off {
        return;
    }
    if IN_HOOK.with(|c| c.replace(true)) {
        return;
    }
    EVENTS.fetch_add(1, Ordering::Relaxed);
    let me = WORKER.with(|w| w.get());
    match kind {
        0 | 3 => {
            let excl = kind == 0;
            if SELF_DEADLOCK_PANICS.load(Ordering::Relaxed) {
                let conflict = HELD.with(|h| h.borrow().iter().find(|x| x.lock == lock && (x.excl || excl)).map(|x| x.site));
                if let Some(hs) = conflict {
                    IN_HOOK.with(|c| c.set(false));
                    panic!("{}: blocking {} acquisition at {} of a lock this thread already holds (acquired at {})", SELF_DEADLOCK, if excl { "exclusive" } else { "shared" }, fmt_site(site), fmt_site(hs));
                }
            }
            match m {
                Mode::Serial if me != usize::MAX => yield_point(me, Some(Pending { lock, excl, site }), internal_site(site)),
                Mode::Jitter => {
                    jitter_note_pending(me, Some(Pending { lock, excl, site }));
                    jitter_delay();
                }
                _ => {}
            }
        }
        1 | 4 | 7 | 8 => {
            let excl = kind == 1 || kind == 7;
            HELD.with(|h| h.borrow_mut().push(Held { lock, excl, site }));
            if (m == Mode::Serial || m == Mode::Jitter) && me != usize::MAX {
                let mut g = SH.lock().unwrap();
                if let Some(sh) = g.as_mut() {
                    sh.holders.entry(lock).or_default().push((me, excl, site));
                    sh.pending[me] = None;
                    if m == Mode::Jitter {
                        // observed interleaving: the order in which the workers' acquisitions reached the monitor
                        sh.trace_hash = (sh.trace_hash ^ (me as u64 + 1)).wrapping_mul(0x0000_0100_0000_01B3);
                    }
                }
            }
        }
        2 | 5 => {
            HELD.with(|h| {
                let mut h = h.borrow_mut();
                if let Some(i) = h.iter().rposition(|x| x.lock == lock) {
                    LAST_RELEASED_INTERNAL.with(|c| c.set(internal_site(h[i].site)));
                    h.remove(i);
                }
            });
            if (m == Mode::Serial || m == Mode::Jitter) && me != usize::MAX {
                let mut g = SH.lock().unwrap();
                if let Some(sh) = g.as_mut() {
                    if let Some(hs) = sh.holders.get_mut(&lock) {
                        if let Some(i) = hs.iter().rposition(|x| x.0 == me) {
                            hs.remove(i);
                        }
                        if hs.is_empty() {
                            sh.holders.remove(&lock);
                        }
                    }
                }
            }
        }
        6 => match m {
            Mode::Serial if me != usize::MAX => yield_point(me, None, LAST_RELEASED_INTERNAL.with(|c| c.get())),
            Mode::Jitter => jitter_delay(),
            _ => {}
        },
        10 => {
            HELD.with(|h| {
                if let Some(x) = h.borrow_mut().iter_mut().rev().find(|x| x.lock == lock) {
                    x.excl = false;
                }
            });
            if (m == Mode::Serial || m == Mode::Jitter) && me != usize::MAX {
                let mut g = SH.lock().unwrap();
                if let Some(sh) = g.as_mut() {
                    if let Some(hs) = sh.holders.get_mut(&lock) {
                        if let Some(x) = hs.iter_mut().rev().find(|x| x.0 == me) {
                            x.1 = false;
                        }
                    }
                }
            }
        }
        _ => {}
    }
    IN_HOOK.with(|c| c.set(false));
}

/// explicit yield point for workers (API-call boundaries, body entry)
pub fn yield_here() {
    if mode() == Mode::Serial {
        let me = WORKER.with(|w| w.get());
        if me != usize::MAX {
            yield_point(me, None, false);
        }
    } else if mode() == Mode::Jitter {
        jitter_delay();
    }
}

pub struct SerialOutcome {
    pub deadlock: Option<DeadlockReport>,
    pub steps: u64,
    pub switches: u64,
    pub trace_hash: u64,
    pub edges: BTreeSet<(String, String)>,
    /// true if the workers did not finish and no deadlock was diagnosed (harness problem / watchdog)
    pub stuck: bool,
}

/// Runs `progs` (one closure per worker) under the serial scheduler.  On a deadlock the worker
/// threads are left parked (they hold real locks): the caller must report and exit the process.
pub fn run_serial(seed: u64, switch_pm: u64, coarse: bool, progs: Vec<Box<dyn FnOnce() + Send + 'static>>) -> SerialOutcome {
    let n = progs.len();
    {
        let mut g = SH.lock().unwrap();
        *g = Some(Shared {
            n,
            holders: HashMap::new(),
            pending: vec![None; n],
            finished: vec![false; n],
            started: vec![false; n],
            cur: usize::MAX,
            rng: Rng::new(seed),
            switch_pm,
            trace_hash: 0xcbf2_9ce4_8422_2325,
            steps: 0,
            switches: 0,
            deadlock: None,
            coarse,
            writer_pref: true,
            edges: BTreeSet::new(),
            aborted: false,
        });
    }
    MODE.store(Mode::Serial as u8, Ordering::SeqCst);
    let mut handles = vec![];
    for (w, p) in progs.into_iter().enumerate() {
        handles.push(std::thread::spawn(move || {
            WORKER.with(|c| c.set(w));
            // wait for the baton
            {
                let mut g = SH.lock().unwrap();
                g.as_mut().unwrap().started[w] = true;
                CV.notify_all();
                loop {
                    let sh = g.as_ref().unwrap();
                    if sh.cur == w {
                        break;
                    }
                    if sh.aborted {
                        drop(g);
                        park_forever();
                    }
                    g = CV.wait(g).unwrap();
                }
            }
            p();
            // done: hand the baton on
            let mut g = SH.lock().unwrap();
            let sh = g.as_mut().unwrap();
            sh.finished[w] = true;
            sh.pending[w] = None;
            let en: Vec<usize> = (0..sh.n).filter(|x| enabled(sh, *x)).collect();
            if en.is_empty() {
                if (0..sh.n).any(|x| sh.started[x] && !sh.finished[x]) {
                    sh.deadlock = Some(build_deadlock(sh));
                    sh.aborted = true;
                }
                sh.cur = usize::MAX;
            } else {
                let next = en[sh.rng.usize(en.len())];
                sh.trace_hash = (sh.trace_hash ^ (next as u64 + 1)).wrapping_mul(0x0000_0100_0000_01B3);
                sh.cur = next;
            }
            WORKER.with(|c| c.set(usize::MAX));
            CV.notify_all();
        }));
    }
    // controller: wait until all started, give the baton to a random worker, then wait for the end
    let t0 = crate::clock::real_mono_ns();
    let mut stuck = false;
    {
        let mut g = SH.lock().unwrap();
        loop {
            if g.as_ref().unwrap().started.iter().all(|x| *x) {
                break;
            }
            g = CV.wait(g).unwrap();
        }
        let sh = g.as_mut().unwrap();
        let first = sh.rng.usize(n);
        sh.cur = first;
        CV.notify_all();
        let mut last_steps = 0u64;
        let mut last_change = crate::clock::real_mono_ns();
        loop {
            let sh = g.as_ref().unwrap();
            if sh.finished.iter().all(|x| *x) || sh.aborted {
                break;
            }
            // std timed waits read the (virtual, frozen) clock: poll with a real sleep instead
            drop(g);
            crate::clock::real_sleep_us(50);
            g = SH.lock().unwrap();
            let sh = g.as_ref().unwrap();
            let now = crate::clock::real_mono_ns();
            if sh.steps != last_steps {
                last_steps = sh.steps;
                last_change = now;
            } else if now - last_change > 5_000_000_000 || now - t0 > 120_000_000_000 {
                stuck = true;
                break;
            }
        }
    }
    let (deadlock, steps, switches, trace_hash, edges) = {
        let g = SH.lock().unwrap();
        let sh = g.as_ref().unwrap();
        (sh.deadlock.clone(), sh.steps, sh.switches, sh.trace_hash, sh.edges.clone())
    };
    if deadlock.is_none() && !stuck {
        for h in handles {
            let _ = h.join();
        }
        MODE.store(Mode::Track as u8, Ordering::SeqCst);
        *SH.lock().unwrap() = None;
    }
    SerialOutcome { deadlock, steps, switches, trace_hash, edges, stuck }
}

// ------------------------------------------------------------------------------------------
// jitter mode
// ------------------------------------------------------------------------------------------
static JITTER_SEED: AtomicU64 = AtomicU64::new(1);
static JITTER_LEVEL: AtomicU64 = AtomicU64::new(2);

fn jitter_delay() {
    let lvl = JITTER_LEVEL.load(Ordering::Relaxed);
    if lvl == 0 {
        return;
    }
    let r = JRNG.with(|r| r.borrow_mut().next());
    match r % 16 {
        0..=7 => {}
        8..=11 => std::thread::yield_now(),
        12..=14 => crate::clock::real_sleep_us(1 + (r >> 8) % (10 * lvl)),
        _ => crate::clock::real_sleep_us(10 + (r >> 8) % (60 * lvl)),
    }
}
fn jitter_note_pending(me: usize, p: Option<Pending>) {
    if me == usize::MAX {
        return;
    }
    let mut g = SH.lock().unwrap();
    if let Some(sh) = g.as_mut() {
        sh.pending[me] = p;
        sh.steps += 1;
    }
}

pub struct JitterOutcome {
    pub deadlock: Option<DeadlockReport>,
    pub stuck: bool,
    pub events: u64,
    /// hash of the order in which the workers' lock acquisitions were observed
    pub trace_hash: u64,
}

/// Runs `progs` free-running with jitter.  If no lock event happens for `stall_ms` of real time
/// while workers are unfinished, the shadow wait-for graph is examined: a cycle is a deadlock
/// (verdict); no cycle is "stuck" (inconclusive).
pub fn run_jitter(seed: u64, level: u64, stall_ms: u64, progs: Vec<Box<dyn FnOnce() + Send + 'static>>) -> JitterOutcome {
    let n = progs.len();
    {
        let mut g = SH.lock().unwrap();
        *g = Some(Shared {
            n,
            holders: HashMap::new(),
            pending: vec![None; n],
            finished: vec![false; n],
            started: vec![true; n],
            cur: usize::MAX,
            rng: Rng::new(seed),
            switch_pm: 0,
            trace_hash: 0,
            steps: 0,
            switches: 0,
            deadlock: None,
            coarse: false,
            writer_pref: true,
            edges: BTreeSet::new(),
            aborted: false,
        });
    }
    JITTER_SEED.store(seed, Ordering::SeqCst);
    JITTER_LEVEL.store(level, Ordering::SeqCst);
    let ev0 = EVENTS.load(Ordering::SeqCst);
    MODE.store(Mode::Jitter as u8, Ordering::SeqCst);
    let barrier = std::sync::Arc::new(std::sync::Barrier::new(n));
    let mut handles = vec![];
    for (w, p) in progs.into_iter().enumerate() {
        let b = barrier.clone();
        handles.push(std::thread::spawn(move || {
            WORKER.with(|c| c.set(w));
            JRNG.with(|r| *r.borrow_mut() = Rng::new(seed ^ ((w as u64 + 1) << 32)));
            b.wait();
            p();
            let mut g = SH.lock().unwrap();
            if let Some(sh) = g.as_mut() {
                sh.finished[w] = true;
                sh.pending[w] = None;
            }
            WORKER.with(|c| c.set(usize::MAX));
        }));
    }
    let mut last_events = EVENTS.load(Ordering::SeqCst);
    let mut last_change = crate::clock::real_mono_ns();
    let mut stuck = false;
    let mut deadlock = None;
    loop {
        crate::clock::real_sleep_us(500);
        let g = SH.lock().unwrap();
        let sh = g.as_ref().unwrap();
        if sh.finished.iter().all(|x| *x) {
            break;
        }
        let ev = EVENTS.load(Ordering::SeqCst);
        let now = crate::clock::real_mono_ns();
        if ev != last_events {
            last_events = ev;
            last_change = now;
            continue;
        }
        if now - last_change > stall_ms as i64 * 1_000_000 {
            // wait-for cycle?
            let mut waits: HashMap<usize, Vec<usize>> = HashMap::new();
            for w in 0..n {
                if sh.finished[w] {
                    continue;
                }
                if let Some(p) = sh.pending[w] {
                    if let Some(hs) = sh.holders.get(&p.lock) {
                        for (hw, hx, _) in hs {
                            if *hw != w && (p.excl || *hx) {
                                waits.entry(w).or_default().push(*hw);
                            }
                        }
                    }
                    if !p.excl && !internal_site(p.site) {
                        for u in 0..n {
                            if u != w && !sh.finished[u] && sh.pending[u].map_or(false, |q| q.lock == p.lock && q.excl) {
                                waits.entry(w).or_default().push(u);
                            }
                        }
                    }
                }
            }
            let mut on_cycle = false;
            for start in waits.keys() {
                let mut seen = BTreeSet::new();
                let mut stack = vec![*start];
                while let Some(x) = stack.pop() {
                    for y in waits.get(&x).into_iter().flatten() {
                        if *y == *start {
                            on_cycle = true;
                        }
                        if seen.insert(*y) {
                            stack.push(*y);
                        }
                    }
                }
            }
            if on_cycle {
                deadlock = Some(build_deadlock(sh));
            } else {
                stuck = true;
            }
            break;
        }
    }
    let events = EVENTS.load(Ordering::SeqCst) - ev0;
    let mut trace_hash = SH.lock().unwrap().as_ref().map_or(0, |sh| sh.trace_hash);
    if deadlock.is_none() && !stuck {
        for h in handles {
            let _ = h.join();
        }
        MODE.store(Mode::Track as u8, Ordering::SeqCst);
        let mut g = SH.lock().unwrap();
        trace_hash = g.as_ref().map_or(trace_hash, |sh| sh.trace_hash);
        *g = None;
    }
    JitterOutcome { deadlock, stuck, events, trace_hash }
}
