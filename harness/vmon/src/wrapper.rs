//! Specification of the macro wrapper (DESIGN.md §2 "macro wrapper", properties C03, C09–C11):
//! call(args) = lookup; on a hit, consult invalidate_on (if any); run the body on a miss or a
//! stale hit; store the result iff the rules for Result / cache_if say so.

use crate::model::{self, Cfg, Key, LookupOut, State};

#[derive(Clone, Copy, Debug)]
pub struct WrapDesc {
    pub is_async: bool,
    pub is_result: bool,
    pub has_cache_if: bool,
    pub has_invalidate_on: bool,
}

/// What the harness armed for this call (only used if the corresponding step happens).
#[derive(Clone, Copy, Debug)]
pub struct Plan {
    /// value the body returns if it runs
    pub value: u64,
    /// Ok or Err if it runs (Result functions)
    pub ok: bool,
    /// footprint of that value
    pub fp: usize,
    /// verdict of cache_if if consulted
    pub pred: bool,
    /// verdict of invalidate_on if consulted
    pub check: bool,
}

#[derive(Clone, Copy, Debug, PartialEq, Eq)]
pub enum Why {
    /// served from the cache
    Served,
    /// body ran: nothing cached for the key
    MissAbsent,
    /// body ran: cached entry had expired
    MissExpired,
    /// body ran: invalidate_on judged the cached entry stale
    Stale,
}

#[derive(Clone, Copy, Debug, PartialEq, Eq)]
pub enum StoreDecision {
    NotRun,
    Stored,
    SkippedErr,
    SkippedPredicate,
}

#[derive(Clone, Debug)]
pub struct CallOutcome {
    pub executed: bool,
    pub value: u64,
    pub n_pred: u32,
    pub n_check: u32,
    pub why: Why,
    pub decision: StoreDecision,
    /// state after the lookup, before any store (for attribution)
    pub mid: State,
    pub state: State,
}

pub fn call(cfg: &Cfg, wd: &WrapDesc, st: &State, k: Key, now: i64, plan: &Plan) -> Vec<CallOutcome> {
    let mut out = vec![];
    let had_entry = st.get(k).is_some();
    for (lo, s1) in model::lookup(cfg, st, k, now) {
        let (why, n_check) = match lo {
            LookupOut::Hit(v) => {
                if wd.has_invalidate_on {
                    if !plan.check {
                        out.push(CallOutcome { executed: false, value: v, n_pred: 0, n_check: 1, why: Why::Served, decision: StoreDecision::NotRun, mid: s1.clone(), state: s1 });
                        continue;
                    }
                    (Why::Stale, 1)
                } else {
                    out.push(CallOutcome { executed: false, value: v, n_pred: 0, n_check: 0, why: Why::Served, decision: StoreDecision::NotRun, mid: s1.clone(), state: s1 });
                    continue;
                }
            }
            LookupOut::Miss => (if had_entry { Why::MissExpired } else { Why::MissAbsent }, 0),
        };
        // the body runs
        let (n_pred, decision) = if wd.has_cache_if {
            if !plan.pred {
                (1, StoreDecision::SkippedPredicate)
            } else if wd.is_result && !wd.is_async && !plan.ok {
                // sync Result functions: accepted by the predicate but Err => not stored (C10)
                (1, StoreDecision::SkippedErr)
            } else {
                (1, StoreDecision::Stored)
            }
        } else if wd.is_result && !plan.ok {
            (0, StoreDecision::SkippedErr)
        } else {
            (0, StoreDecision::Stored)
        };
        if decision == StoreDecision::Stored {
            for s2 in model::store(cfg, &s1, k, plan.value, plan.fp, now) {
                out.push(CallOutcome { executed: true, value: plan.value, n_pred, n_check, why, decision, mid: s1.clone(), state: s2 });
            }
        } else {
            if why == Why::Stale {
                // the stale entry was not refreshed (result rejected / Err): the statements do not
                // say whether it stays; accept its removal too
                let mut s2 = s1.clone();
                s2.remove_keys(&std::iter::once(k).collect());
                out.push(CallOutcome { executed: true, value: plan.value, n_pred, n_check, why, decision, mid: s1.clone(), state: s2 });
            }
            out.push(CallOutcome { executed: true, value: plan.value, n_pred, n_check, why, decision, mid: s1.clone(), state: s1 });
        }
    }
    out
}
