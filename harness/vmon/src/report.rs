//! Output of a monitor process: one JSON document on a file given by `--out`, consumed by
//! /verif/run.py which merges shards, matches known findings and writes evidence.
use serde_json::{json, Map, Value};
use std::collections::BTreeMap;

#[derive(Default)]
pub struct Report {
    /// property id -> counters
    pub counters: BTreeMap<String, BTreeMap<String, u64>>,
    /// property id -> distinct-case hashes
    pub distinct: BTreeMap<String, std::collections::BTreeSet<u64>>,
    pub samples: BTreeMap<String, Vec<Value>>,
    pub violations: Vec<Value>,
    pub inconclusive: Vec<Value>,
    pub notes: Vec<String>,
    /// true when the shards of this monitor partition the case space (every distinct-case hash
    /// contains the shard-specific configuration / scenario index): the merger then sums counts
    /// instead of shipping and uniting hash sets
    pub shards_disjoint: bool,
}

impl Report {
    pub fn new() -> Self {
        Self::default()
    }
    pub fn count(&mut self, prop: &str, what: &str, n: u64) {
        *self.counters.entry(prop.to_string()).or_default().entry(what.to_string()).or_insert(0) += n;
    }
    pub fn distinct(&mut self, prop: &str, h: u64) {
        self.distinct.entry(prop.to_string()).or_default().insert(h);
    }
    pub fn sample(&mut self, prop: &str, v: Value, max: usize) {
        let e = self.samples.entry(prop.to_string()).or_default();
        if e.len() < max {
            e.push(v);
        }
    }
    /// `sig` is the signature used for known-finding matching:
    /// property|level|flavour|policy|kind|discriminator
    pub fn violation(&mut self, prop: &str, sig: &str, what: &str, witness: Value) {
        // keep at most a handful of witnesses per signature, but count all
        let n = self.violations.iter().filter(|v| v["sig"] == sig).count();
        self.count(prop, "violations_seen", 1);
        if n < 3 {
            self.violations.push(json!({"property": prop, "sig": sig, "what": what, "witness": witness}));
        } else {
            // bump a counter on the first record with this signature
            for v in self.violations.iter_mut() {
                if v["sig"] == sig {
                    let c = v.get("more").and_then(|x| x.as_u64()).unwrap_or(0);
                    v.as_object_mut().unwrap().insert("more".into(), json!(c + 1));
                    break;
                }
            }
        }
    }
    pub fn inconclusive(&mut self, prop: &str, why: &str) {
        self.count(prop, "inconclusive", 1);
        if self.inconclusive.len() < 20 {
            self.inconclusive.push(json!({"property": prop, "why": why}));
        }
    }
    pub fn to_json(&self) -> Value {
        let mut d = Map::new();
        for (p, s) in &self.distinct {
            // ship at most 200k hashes per property per shard; the merger unions them
            if self.shards_disjoint {
                d.insert(p.clone(), json!({"n": s.len(), "disjoint": true}));
            } else {
                let v: Vec<Value> = s.iter().take(100_000).map(|h| json!(format!("{:x}", h))).collect();
                d.insert(p.clone(), json!({"n": s.len(), "hashes": v}));
            }
        }
        json!({
            "counters": self.counters,
            "distinct": d,
            "samples": self.samples,
            "violations": self.violations,
            "inconclusive": self.inconclusive,
            "notes": self.notes,
        })
    }
    pub fn write(&self, path: &str) {
        let s = serde_json::to_string(&self.to_json()).unwrap();
        std::fs::write(path, s).expect("write report");
    }
}

pub fn hash64(parts: &[u64]) -> u64 {
    let mut h = 0xcbf2_9ce4_8422_2325u64;
    for p in parts {
        for b in p.to_le_bytes() {
            h ^= b as u64;
            h = h.wrapping_mul(0x0000_0100_0000_01B3);
        }
    }
    h
}
pub fn hash_str(s: &str) -> u64 {
    let mut h = 0xcbf2_9ce4_8422_2325u64;
    for b in s.as_bytes() {
        h ^= *b as u64;
        h = h.wrapping_mul(0x0000_0100_0000_01B3);
    }
    h
}
