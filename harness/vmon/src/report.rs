//! Output of a monitor process: one JSON document on a file given by `--out`, consumed by
//! /verif/run.py which merges shards, matches known findings and writes evidence.
use serde_json::{json, Map, Value};
use std::collections::BTreeMap;

#[derive(Default)]
pub struct Report {
    /// property id -> counters
    pub counters: BTreeMap<String, BTreeMap<String, u64>>,
    /// property id -> distinct-case hashes
    pub distinct: BTreeMap<String, std::collections::BTreeSet<u64>>,
    pub samples: BTreeMap<String, Vec<Value>>,
    pub violations: Vec<Value>,
    pub inconclusive: Vec<Value>,
    pub notes: Vec<String>,
    /// true when the shards of this monitor partition the case space (every distinct-case hash
    /// contains the shard-specific configuration / scenario index): the merger then sums counts
    /// instead of shipping and uniting hash sets
    pub shards_disjoint: bool,
}

impl Report {
    pub fn new() -> Self {
        Self::default()
    }
    pub fn count(&mut self, prop: &str, what: &str, n: u64) {
        *self.counters.entry(prop.to_string()).or_default().entry(what.to_string()).or_insert(0) += n;
    }
    pub fn distinct(&mut self, prop: &str, h: u64) {
        self.distinct.entry(prop.to_string()).or_default().insert(h);
    }
    pub fn sample(&mut self, prop: &str, v: Value, max: usize) {
        let e = self.samples.entry(prop.to_string()).or_default();
        if e.len() < max {
            e.push(v);
        }
    }
    /// `sig` is the signature used for known-finding matching:
    /// property|level|flavour|policy|kind|discriminator
    pub fn violation(&mut self, prop: &str, sig: &str, what: &str, witness: Value) {
        self.violation_tainted(prop, sig, what, witness, "", "")
    }
    /// A violation of capacity bookkeeping (`prop`) observed while the cache still carried
    /// traces of an expiry purge or an invalidation (`cause`): if the same kind of violation is
    /// never seen without such traces in the run, the merger attributes it to `alt_prop`
    /// ("an expired entry no longer occupies capacity", C06; "after any invalidation limits
    /// behave as if the removed entries had never been stored", C13).
    pub fn violation_tainted(&mut self, prop: &str, sig: &str, what: &str, witness: Value, alt_prop: &str, cause: &str) {
        // keep at most a handful of witnesses per signature, but count all
        let n = self.violations.iter().filter(|v| v["sig"] == sig && v["taint"] == cause).count();
        self.count(prop, "violations_seen", 1);
        if n < 3 {
            self.violations.push(json!({"property": prop, "sig": sig, "what": what, "witness": witness, "taint": cause, "alt_property": alt_prop}));
        } else {
            // bump a counter on the first record with this signature
            for v in self.violations.iter_mut() {
                if v["sig"] == sig && v["taint"] == cause {
                    let c = v.get("more").and_then(|x| x.as_u64()).unwrap_or(0);
                    v.as_object_mut().unwrap().insert("more".into(), json!(c + 1));
                    break;
                }
            }
        }
    }
    pub fn inconclusive(&mut self, prop: &str, why: &str) {
        self.count(prop, "inconclusive", 1);
        if self.inconclusive.len() < 20 {
            self.inconclusive.push(json!({"property": prop, "why": why}));
        }
    }
    /// Merge the JSON report of a child process (written with `shards_disjoint == false`).
    pub fn absorb(&mut self, v: &Value) {
        if let Some(cs) = v["counters"].as_object() {
            for (p, m) in cs {
                if let Some(m) = m.as_object() {
                    for (k, n) in m {
                        self.count(p, k, n.as_u64().unwrap_or(0));
                    }
                }
            }
        }
        if let Some(ds) = v["distinct"].as_object() {
            for (p, d) in ds {
                if let Some(hs) = d["hashes"].as_array() {
                    let set = self.distinct.entry(p.clone()).or_default();
                    for h in hs {
                        if let Some(x) = h.as_str().and_then(|s| u64::from_str_radix(s, 16).ok()) {
                            set.insert(x);
                        }
                    }
                }
            }
        }
        if let Some(ss) = v["samples"].as_object() {
            for (p, arr) in ss {
                for s in arr.as_array().into_iter().flatten() {
                    self.sample(p, s.clone(), 3);
                }
            }
        }
        for x in v["violations"].as_array().into_iter().flatten() {
            let sig = x["sig"].as_str().unwrap_or("");
            let taint = x["taint"].as_str().unwrap_or("");
            let n = self.violations.iter().filter(|v| v["sig"] == sig && v["taint"] == taint).count();
            if n < 3 {
                self.violations.push(x.clone());
            } else if let Some(first) = self.violations.iter_mut().find(|v| v["sig"] == sig && v["taint"] == taint) {
                let c = first.get("more").and_then(|x| x.as_u64()).unwrap_or(0) + 1 + x.get("more").and_then(|x| x.as_u64()).unwrap_or(0);
                first.as_object_mut().unwrap().insert("more".into(), json!(c));
            }
        }
        for x in v["inconclusive"].as_array().into_iter().flatten() {
            if self.inconclusive.len() < 20 {
                self.inconclusive.push(x.clone());
            }
        }
        for x in v["notes"].as_array().into_iter().flatten() {
            if self.notes.len() < 40 {
                if let Some(s) = x.as_str() {
                    self.notes.push(s.to_string());
                }
            }
        }
    }
    pub fn to_json(&self) -> Value {
        let mut d = Map::new();
        for (p, s) in &self.distinct {
            // ship at most 200k hashes per property per shard; the merger unions them
            if self.shards_disjoint {
                d.insert(p.clone(), json!({"n": s.len(), "disjoint": true}));
            } else {
                let v: Vec<Value> = s.iter().take(100_000).map(|h| json!(format!("{:x}", h))).collect();
                d.insert(p.clone(), json!({"n": s.len(), "hashes": v}));
            }
        }
        json!({
            "counters": self.counters,
            "distinct": d,
            "samples": self.samples,
            "violations": self.violations,
            "inconclusive": self.inconclusive,
            "notes": self.notes,
        })
    }
    pub fn write(&self, path: &str) {
        let s = serde_json::to_string(&self.to_json()).unwrap();
        std::fs::write(path, s).expect("write report");
    }
}

pub fn hash64(parts: &[u64]) -> u64 {
    let mut h = 0xcbf2_9ce4_8422_2325u64;
    for p in parts {
        for b in p.to_le_bytes() {
            h ^= b as u64;
            h = h.wrapping_mul(0x0000_0100_0000_01B3);
        }
    }
    h
}
pub fn hash_str(s: &str) -> u64 {
    let mut h = 0xcbf2_9ce4_8422_2325u64;
    for b in s.as_bytes() {
        h ^= *b as u64;
        h = h.wrapping_mul(0x0000_0100_0000_01B3);
    }
    h
}
