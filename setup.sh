#!/bin/sh
# Builds the whole framework offline from files on disk (run once after a fresh restore).
set -e
cd "$(dirname "$0")/harness"
export CARGO_NET_OFFLINE=true CARGO_TARGET_DIR=/verif/target
cargo build --release --offline 2>&1 | tail -3
echo "setup done"
