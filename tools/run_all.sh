#!/bin/sh
# Runs every registered check once: run_all.sh <quick|thorough> <seed> <logfile>
TIER=$1; SEED=$2; LOG=$3
cd /verif
: > "$LOG"
for p in C01 C02 C03 C04 C05 C06 C07 C08 C09 C10 C11 C12 C13 C14 C15 C16 C17 C18 C19 C20; do
  s=$(date +%s)
  out=$(VERIF_SEED=$SEED ./run.py $TIER $p 2>&1)
  rc=$?
  e=$(date +%s)
  echo "$p rc=$rc $((e-s))s $(echo "$out" | grep -E '^(OK|VIOLATION|INCONCLUSIVE|KNOWN)' | head -3 | tr '\n' ' ' | cut -c1-220)" >> "$LOG"
done
echo DONE >> "$LOG"
