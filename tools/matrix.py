#!/usr/bin/env python3
"""Turns selftest output (tools/selftest.py ...) plus seeded/*/meta.json into the markdown
table of DESIGN.md section 10 and records 'detected_by' in each meta.json.
    matrix.py <selftest-output> [more outputs...]"""
import json, os, re, sys
ROOT = os.path.dirname(os.path.dirname(os.path.abspath(__file__)))
rows = {}
for f in sys.argv[1:]:
    for l in open(f):
        m = re.match(r"^(\S+?)(?:\.patch)?: (C\d\d): (CAUGHT|missed|TIMEOUT|exit\d+)(?: \((\d+) signatures, (\d+)s\))? ?(.*)$", l.rstrip())
        if m:
            name, prop, status, nsig, secs, first = m.groups()
            rows[(name, prop)] = (status, nsig, secs, first)
out = []
out.append("| id | property | what the change does / what it needs to manifest | quick check result | first signature reported |")
out.append("|---|---|---|---|---|")
for (name, prop), (status, nsig, secs, first) in sorted(rows.items()):
    desc = ""
    mj = os.path.join(ROOT, "seeded", name, "meta.json")
    if os.path.exists(mj):
        meta = json.load(open(mj))
        desc = meta.get("needs_to_manifest", "")
        meta["detected_by"] = {"check": f"./run.py quick {prop}", "result": status, "signatures": int(nsig or 0), "first_signature": first.split(": ")[0][:200]}
        json.dump(meta, open(mj, "w"), indent=1)
    else:
        desc = name.split("_", 2)[-1].replace("_", " ") + " (own mutant, tools/mutants)"
    sig = first.split(": ")[0].replace("|", "\\|")[:150]
    out.append(f"| {name.split('_')[0]} | {prop} | {desc.replace('|', '/')} | {status}" + (f" ({nsig} sig., {secs} s)" if nsig else "") + f" | `{sig}` |")
print("\n".join(out))
