#!/usr/bin/env python3
"""Generates /verif/harness/badcorpus: one bin per *invalid* attribute list (must not compile),
one control bin holding the corrected twin of every case (must compile), and one bin per
borderline list (reported, no verdict).  C19, second half: unknown attribute names and invalid
policy / scope / limit / ttl / max_memory values are rejected at compile time."""
import os, shutil
ROOT = os.path.join(os.path.dirname(os.path.abspath(__file__)), "..", "harness", "badcorpus")
BIN = os.path.join(ROOT, "src", "bin")
shutil.rmtree(BIN, ignore_errors=True)
os.makedirs(BIN)

# (case id, macro kinds, invalid attribute list, corrected attribute list, what is wrong)
CASES = [
    ("unknown_foo", "sa", 'foo = 1', '', "unknown attribute name"),
    ("typo_limt", "sa", 'limt = 3', 'limit = 3', "typo of limit"),
    ("typo_polcy", "sa", 'polcy = "lru"', 'policy = "lru"', "typo of policy"),
    ("typo_max_mem", "sa", 'max_mem = "1KB"', 'max_memory = "1KB"', "typo of max_memory"),
    ("typo_tag", "sa", 'tag = ["x"]', 'tags = ["x"]', "typo of tags"),
    ("typo_ttl_secs", "sa", 'ttl_secs = 5', 'ttl = 5', "typo of ttl"),
    ("typo_scop", "s", 'scop = "thread"', 'scope = "thread"', "typo of scope"),
    ("unknown_after_valid", "sa", 'limit = 2, evict = "lru"', 'limit = 2, policy = "lru"', "unknown name after a valid one"),
    ("policy_mru", "sa", 'policy = "mru"', 'policy = "lru"', "policy outside the documented set"),
    ("policy_empty", "sa", 'policy = ""', 'policy = "fifo"', "empty policy"),
    ("policy_ident", "sa", 'policy = lru', 'policy = "lru"', "policy not a string literal"),
    ("policy_int", "sa", 'policy = 3', 'policy = "arc"', "policy not a string literal"),
    ("policy_lru_k", "sa", 'limit = 2, policy = "lru-k"', 'limit = 2, policy = "lru"', "policy outside the documented set"),
    ("scope_process", "s", 'scope = "process"', 'scope = "global"', "scope outside the documented set"),
    ("scope_ident", "s", 'scope = thread', 'scope = "thread"', "scope not a string literal"),
    ("scope_int", "s", 'scope = 1', 'scope = "thread"', "scope not a string literal"),
    ("scope_empty", "s", 'scope = ""', 'scope = "global"', "empty scope"),
    ("limit_negative", "sa", 'limit = -1', 'limit = 1', "negative limit"),
    ("limit_fraction", "sa", 'limit = 1.5', 'limit = 1', "fractional limit"),
    ("limit_string", "sa", 'limit = "5"', 'limit = 5', "string limit"),
    ("limit_huge", "sa", 'limit = 99999999999999999999999', 'limit = 9', "limit out of range"),
    ("limit_bool", "sa", 'limit = true', 'limit = 1', "boolean limit"),
    ("ttl_negative", "sa", 'ttl = -1', 'ttl = 1', "negative ttl"),
    ("ttl_fraction", "sa", 'ttl = 2.5', 'ttl = 2', "fractional ttl"),
    ("ttl_string", "sa", 'ttl = "10"', 'ttl = 10', "string ttl"),
    ("ttl_huge", "sa", 'ttl = 99999999999999999999999999', 'ttl = 9', "ttl out of range"),
    ("mem_unknown_unit", "sa", 'max_memory = "10XB"', 'max_memory = "10KB"', "unknown unit"),
    ("mem_no_number", "sa", 'max_memory = "MB"', 'max_memory = "1MB"', "unit without a number"),
    ("mem_signed", "sa", 'max_memory = "-5MB"', 'max_memory = "5MB"', "signed size"),
    ("mem_fraction", "sa", 'max_memory = "1.5MB"', 'max_memory = "1MB"', "fractional size"),
    ("mem_empty", "sa", 'max_memory = ""', 'max_memory = "1KB"', "empty size"),
    ("mem_negative_int", "sa", 'max_memory = -5', 'max_memory = 5000', "negative size"),
    ("mem_float", "sa", 'max_memory = 1.5', 'max_memory = 1500', "fractional size"),
    ("mem_bool", "sa", 'max_memory = true', 'max_memory = 1000', "boolean size"),
    ("mem_words", "sa", 'max_memory = "one megabyte"', 'max_memory = "1MB"', "not a size"),
]
# borderline: the statement does not say which way these must go; they are reported only
BORDER = [
    ("limit_zero", "sa", 'limit = 0'),
    ("policy_upper", "sa", 'policy = "LRU"'),
    ("mem_lower_unit", "sa", 'max_memory = "1kb"'),
    ("mem_overflow", "sa", 'max_memory = "99999999999999999999GB"'),
    ("fw_zero", "sa", 'policy = "tlru", frequency_weight = 0.0'),
    ("fw_negative", "sa", 'policy = "tlru", frequency_weight = -1.0'),
    ("name_int", "sa", 'name = 5'),
    ("async_scope", "a", 'scope = "global"'),
]

HDR_S = "use cachelito::cache;\n"
HDR_A = "use cachelito_async::cache_async;\n"


def fn_sync(name, attrs):
    a = f"#[cache({attrs})]" if attrs else "#[cache]"
    return f"{a}\npub fn {name}(x: u32) -> String {{ format!(\"v{{}}\", x) }}\n"


def fn_async(name, attrs):
    a = f"#[cache_async({attrs})]" if attrs else "#[cache_async]"
    return f"{a}\npub async fn {name}(x: u32) -> String {{ format!(\"v{{}}\", x) }}\n"


manifest = []
ctl = [HDR_S, HDR_A, "#![allow(dead_code)]\n"]
for (cid, kinds, bad, good, why) in CASES:
    for k in kinds:
        nm = f"bad_{'sync' if k == 's' else 'async'}_{cid}"
        src = (HDR_S + fn_sync("f", bad) if k == "s" else HDR_A + fn_async("f", bad)) + "fn main() {}\n"
        open(os.path.join(BIN, nm + ".rs"), "w").write("#![allow(dead_code)]\n" + src)
        cname = f"ctl_{'sync' if k == 's' else 'async'}_{cid}"
        ctl.append(fn_sync(cname, good) if k == "s" else fn_async(cname, good))
        manifest.append(dict(bin=nm, kind="invalid", macro="cache" if k == "s" else "cache_async", attrs=bad, corrected=good, why=why, control_fn=cname))
ctl.append("fn main() {}\n")
ctl = ["#![allow(dead_code)]\n"] + [c for c in ctl if not c.startswith("#![allow")]
open(os.path.join(BIN, "controls.rs"), "w").write("".join(ctl))
for (cid, kinds, attrs) in BORDER:
    for k in kinds:
        nm = f"border_{'sync' if k == 's' else 'async'}_{cid}"
        src = (HDR_S + fn_sync("f", attrs) if k == "s" else HDR_A + fn_async("f", attrs)) + "fn main() {}\n"
        open(os.path.join(BIN, nm + ".rs"), "w").write("#![allow(dead_code)]\n" + src)
        manifest.append(dict(bin=nm, kind="borderline", macro="cache" if k == "s" else "cache_async", attrs=attrs))
import json
json.dump(manifest, open(os.path.join(ROOT, "cases.json"), "w"), indent=1)
open(os.path.join(ROOT, "Cargo.toml"), "w").write('''[package]
name = "badcorpus"
version = "0.0.0"
edition = "2021"

[features]
default = ["stats"]
stats = []

[dependencies]
cachelito = { path = "/repo" }
cachelito-async = { path = "/repo/cachelito-async" }
cachelito-core = { path = "/repo/cachelito-core" }
once_cell = "1.21.3"
parking_lot = "0.12"
dashmap = "6.1"
''')
print(len(manifest), "cases")
