#!/usr/bin/env python3
"""Re-creates /verif/vendor/lock_api from the pristine lock_api 0.4.14 in the cargo registry and
adds the verification hook calls.  The result is committed; this script documents (and can
reproduce) exactly what was added.  Only additions: no upstream line is removed or rewritten
except that `self.raw.lock()`-style statements get a hook call before and after them.
"""
import glob, os, re, shutil, sys

SRC = glob.glob(os.path.expanduser("~/.cargo/registry/src/*/lock_api-0.4.14"))[0]
DST = os.path.join(os.path.dirname(os.path.abspath(__file__)), "..", "vendor", "lock_api")
DST = os.path.normpath(DST)

HOOK_MOD = r'''
/// Verification hook (added by /verif/tools/patch_lock_api.py; not part of upstream lock_api).
///
/// A single process-wide function pointer.  When unset every call below is one relaxed load.
/// Event kinds:
///   0 attempt-exclusive   (before a blocking exclusive acquire)
///   1 acquired-exclusive  (after it returned)
///   2 releasing-exclusive (before the raw unlock)
///   3 attempt-shared      4 acquired-shared      5 releasing-shared
///   6 released            (after the raw unlock; pure delay point)
///   7 try-exclusive-ok    8 try-shared-ok        9 try-failed
///  10 downgraded          (exclusive -> shared, atomically)
pub mod verif_hook {
    use core::panic::Location;
    use core::sync::atomic::{AtomicUsize, Ordering};

    /// hook signature: (event kind, lock address, call site)
    pub type HookFn = fn(kind: u8, lock: usize, site: &'static Location<'static>);

    static HOOK: AtomicUsize = AtomicUsize::new(0);

    /// Installs the hook.  Call before any other thread exists.
    pub fn set(f: HookFn) {
        HOOK.store(f as usize, Ordering::SeqCst);
    }

    /// Removes the hook.
    pub fn clear() {
        HOOK.store(0, Ordering::SeqCst);
    }

    #[inline(always)]
    pub(crate) fn emit<T>(kind: u8, lock: *const T, site: &'static Location<'static>) {
        let h = HOOK.load(Ordering::Relaxed);
        if h != 0 {
            // SAFETY: only ever stored from a `HookFn` in `set`.
            let f: HookFn = unsafe { core::mem::transmute::<usize, HookFn>(h) };
            f(kind, lock as *const () as usize, site);
        }
    }
}
'''

def sub_once(text, old, new, count=None, what=""):
    n = text.count(old)
    if n == 0 or (count is not None and n != count):
        sys.exit(f"patch_lock_api: pattern {what or old!r} found {n} times, expected {count}")
    return text.replace(old, new)

def wrap_drop(text, guard, unlock_stmt, lock_expr, releasing_kind):
    """Wraps the raw unlock inside `impl Drop for <guard>` with releasing/released events."""
    m = re.search(r"impl<[^\n]*> Drop for " + re.escape(guard) + r" \{\n", text)
    if not m:
        sys.exit(f"patch_lock_api: Drop impl for {guard} not found")
    i = text.index("        unsafe {\n            " + unlock_stmt + "\n        }\n", m.end())
    if i - m.end() > 400:
        sys.exit(f"patch_lock_api: unlock for {guard} too far from its Drop header")
    block = "        unsafe {\n            " + unlock_stmt + "\n        }\n"
    L = "core::panic::Location::caller()"
    new = (f"        crate::verif_hook::emit({releasing_kind}, {lock_expr}, {L});\n" + block +
           f"        crate::verif_hook::emit(6, {lock_expr}, {L});\n")
    return text[:i] + new + text[i + len(block):]

def main():
    if os.path.isdir(DST):
        shutil.rmtree(DST)
    shutil.copytree(SRC, DST)
    for junk in (".cargo-ok", ".cargo_vcs_info.json", "Cargo.lock", "Cargo.toml.orig"):
        p = os.path.join(DST, junk)
        if os.path.exists(p):
            os.remove(p)

    # ---- lib.rs
    p = os.path.join(DST, "src", "lib.rs")
    t = open(p).read()
    t = t.rstrip("\n") + "\n" + HOOK_MOD
    open(p, "w").write(t)

    L = "core::panic::Location::caller()"

    # ---- mutex.rs
    p = os.path.join(DST, "src", "mutex.rs")
    t = open(p).read()
    # Mutex::lock
    t = sub_once(t,
        "    pub fn lock(&self) -> MutexGuard<'_, R, T> {\n        self.raw.lock();\n",
        f"    pub fn lock(&self) -> MutexGuard<'_, R, T> {{\n        crate::verif_hook::emit(0, &self.raw, {L});\n        self.raw.lock();\n        crate::verif_hook::emit(1, &self.raw, {L});\n", 1, "Mutex::lock")
    # Mutex::try_lock
    t = sub_once(t,
        "    pub fn try_lock(&self) -> Option<MutexGuard<'_, R, T>> {\n        if self.raw.try_lock() {\n",
        f"    pub fn try_lock(&self) -> Option<MutexGuard<'_, R, T>> {{\n        if self.raw.try_lock() {{\n            crate::verif_hook::emit(7, &self.raw, {L});\n", 1, "Mutex::try_lock ok")
    t = wrap_drop(t, "MutexGuard<'a, R, T>", "self.mutex.raw.unlock();", "&self.mutex.raw", 2)
    t = wrap_drop(t, "MappedMutexGuard<'a, R, T>", "self.raw.unlock();", "self.raw", 2)
    open(p, "w").write(t)

    # ---- rwlock.rs
    p = os.path.join(DST, "src", "rwlock.rs")
    t = open(p).read()
    t = sub_once(t,
        "    pub fn read(&self) -> RwLockReadGuard<'_, R, T> {\n        self.raw.lock_shared();\n",
        f"    pub fn read(&self) -> RwLockReadGuard<'_, R, T> {{\n        crate::verif_hook::emit(3, &self.raw, {L});\n        self.raw.lock_shared();\n        crate::verif_hook::emit(4, &self.raw, {L});\n", 1, "RwLock::read")
    t = sub_once(t,
        "    pub fn try_read(&self) -> Option<RwLockReadGuard<'_, R, T>> {\n        if self.raw.try_lock_shared() {\n",
        f"    pub fn try_read(&self) -> Option<RwLockReadGuard<'_, R, T>> {{\n        if self.raw.try_lock_shared() {{\n            crate::verif_hook::emit(8, &self.raw, {L});\n", 1, "RwLock::try_read")
    t = sub_once(t,
        "    pub fn write(&self) -> RwLockWriteGuard<'_, R, T> {\n        self.raw.lock_exclusive();\n",
        f"    pub fn write(&self) -> RwLockWriteGuard<'_, R, T> {{\n        crate::verif_hook::emit(0, &self.raw, {L});\n        self.raw.lock_exclusive();\n        crate::verif_hook::emit(1, &self.raw, {L});\n", 1, "RwLock::write")
    t = sub_once(t,
        "    pub fn try_write(&self) -> Option<RwLockWriteGuard<'_, R, T>> {\n        if self.raw.try_lock_exclusive() {\n",
        f"    pub fn try_write(&self) -> Option<RwLockWriteGuard<'_, R, T>> {{\n        if self.raw.try_lock_exclusive() {{\n            crate::verif_hook::emit(7, &self.raw, {L});\n", 1, "RwLock::try_write")
    # read_recursive (not used by cachelito/dashmap today, hooked as a shared acquire)
    t = sub_once(t,
        "    pub fn read_recursive(&self) -> RwLockReadGuard<'_, R, T> {\n        self.raw.lock_shared_recursive();\n",
        f"    pub fn read_recursive(&self) -> RwLockReadGuard<'_, R, T> {{\n        crate::verif_hook::emit(3, &self.raw, {L});\n        self.raw.lock_shared_recursive();\n        crate::verif_hook::emit(4, &self.raw, {L});\n", 1, "RwLock::read_recursive")
    # guard drops
    t = wrap_drop(t, "RwLockReadGuard<'a, R, T>", "self.rwlock.raw.unlock_shared();", "&self.rwlock.raw", 5)
    t = wrap_drop(t, "RwLockWriteGuard<'a, R, T>", "self.rwlock.raw.unlock_exclusive();", "&self.rwlock.raw", 2)
    t = wrap_drop(t, "MappedRwLockReadGuard<'a, R, T>", "self.raw.unlock_shared();", "self.raw", 5)
    t = wrap_drop(t, "MappedRwLockWriteGuard<'a, R, T>", "self.raw.unlock_exclusive();", "self.raw", 2)
    # RwLockWriteGuard::downgrade (used by dashmap's RefMut::downgrade)
    hdr = "    pub fn downgrade(s: Self) -> RwLockReadGuard<'a, R, T> {\n"
    i = t.index(hdr)
    blk = "        unsafe {\n            s.rwlock.raw.downgrade();\n        }\n"
    j = t.index(blk, i)
    assert j - i < 300
    t = t[:j] + blk + "        crate::verif_hook::emit(10, &s.rwlock.raw, core::panic::Location::caller());\n" + t[j + len(blk):]
    open(p, "w").write(t)
    print("patched", DST)

if __name__ == "__main__":
    main()
