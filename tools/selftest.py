#!/usr/bin/env python3
"""Self-test of the monitors (not a registered check): applies one mutant patch at a time to
/repo, runs the quick check(s) of the property it targets, and always restores /repo.

    selftest.py [patch-or-dir ...] [--props C01,C04]     default: tools/mutants/*.patch
"""
import glob, os, re, subprocess, sys, time
ROOT = os.path.dirname(os.path.dirname(os.path.abspath(__file__)))
args = [a for a in sys.argv[1:] if not a.startswith("--")]
props_override = None
REPO = "/repo"
for a in sys.argv[1:]:
    if a.startswith("--props="):
        props_override = a.split("=", 1)[1].split(",")
    if a.startswith("--repo="):
        REPO = a.split("=", 1)[1]
patches = []
for a in args or [os.path.join(ROOT, "tools", "mutants")]:
    if os.path.isdir(a):
        patches += sorted(glob.glob(os.path.join(a, "*.patch"))) + sorted(glob.glob(os.path.join(a, "*", "patch.diff")))
    else:
        patches.append(os.path.abspath(a))
patches = [os.path.abspath(x) for x in patches]
assert subprocess.run(["git", "-C", REPO, "diff", "--quiet"]).returncode == 0, "/repo has uncommitted changes"
results = []
for p in patches:
    name = os.path.basename(p) if p.endswith(".patch") else os.path.basename(os.path.dirname(p))
    props = props_override or re.findall(r"C\d\d", name)[:1]
    mj = os.path.join(os.path.dirname(p), "meta.json")
    if not props and os.path.exists(mj):
        import json
        props = [json.load(open(mj))["property"]]
    r = subprocess.run(["git", "-C", REPO, "apply", p], capture_output=True, text=True)
    if r.returncode != 0:
        print(f"{name}: PATCH DOES NOT APPLY: {r.stderr.strip()[:200]}")
        results.append((name, "noapply"))
        continue
    try:
        for pr in props:
            t0 = time.time()
            try:
                r = subprocess.run([os.path.join(ROOT, "run.py"), "quick", pr], capture_output=True, text=True, cwd=ROOT, timeout=1800)
            except subprocess.TimeoutExpired:
                subprocess.run(["pkill", "-9", "-x", "concmon"]); subprocess.run(["pkill", "-9", "-x", "l2mon"])
                print(f"{name}: {pr}: TIMEOUT")
                results.append((name, "timeout"))
                continue
            viol = [l for l in r.stdout.splitlines() if l.startswith("VIOLATION")]
            detail = [l.strip() for l in r.stderr.splitlines() if l.startswith("   ")]
            status = "CAUGHT" if viol else ("missed" if r.returncode == 0 else f"exit{r.returncode}")
            print(f"{name}: {pr}: {status} ({len(viol)} signatures, {time.time()-t0:.0f}s) {detail[0][:160] if detail else r.stdout.strip()[-160:]}")
            results.append((name, status))
    finally:
        subprocess.run(["git", "-C", REPO, "checkout", "--", "."], check=True)
print("summary:", sum(1 for r in results if r[1] == "CAUGHT"), "caught of", len(results))
