#!/bin/sh
# Runs tools/selftest.py against a scratch copy of /repo and of /verif (outside both), so that
# the working trees stay untouched while it runs.  Everything is removed afterwards.
#   selftest_isolated.sh <out-file> [selftest args...]
set -e
OUTF="$1"; shift
ST=/tmp/st
git -C /repo worktree remove --force $ST/repo 2>/dev/null || true
rm -rf $ST; mkdir -p $ST
git -C /repo worktree add -q --detach $ST/repo HEAD
rsync -a --exclude target --exclude out --exclude .git --exclude replays /verif/ $ST/verif/
sed -i "s#/repo#$ST/repo#g" $ST/verif/harness/*/Cargo.toml
sed -i "s#/verif/target#$ST/verif/target#" $ST/verif/harness/.cargo/config.toml
cd $ST/verif
python3 tools/selftest.py --repo=$ST/repo "$@" > "$OUTF" 2>&1 || true
cd /
git -C /repo worktree remove --force $ST/repo || true
rm -rf $ST
