#!/usr/bin/env python3
"""Confirms a seeded change delivered by a sub-agent and files it under /verif/seeded/<id>/.

    confirm_seed.py <id> <property> <src_dir> <demo_dest_rel_path> -- <demo command...>

In a scratch worktree of /repo's HEAD (outside /repo and /verif, removed afterwards):
  1. the demonstration passes on the unchanged code;
  2. patch.diff applies;
  3. the workspace's own tests (cargo test --workspace --offline, demo removed) still pass;
  4. the demonstration fails with the change.
Writes patch.diff (as applied to the current HEAD), the demo and meta.json.
"""
import json, os, shutil, subprocess, sys, time

sid, prop, src, dest = sys.argv[1:5]
cmd = sys.argv[sys.argv.index("--") + 1:]
WT = "/tmp/cs-wt"
ENV = dict(os.environ, CARGO_NET_OFFLINE="true", CARGO_TARGET_DIR="/tmp/cs-target")
OUT = f"/verif/seeded/{sid}"


def sh(args, **kw):
    return subprocess.run(args, cwd=WT, env=ENV, stdout=subprocess.PIPE, stderr=subprocess.STDOUT, text=True, **kw)


subprocess.run(["git", "-C", "/repo", "worktree", "remove", "--force", WT], capture_output=True)
subprocess.run(["git", "-C", "/repo", "worktree", "prune"])
assert subprocess.run(["git", "-C", "/repo", "worktree", "add", "-q", "--detach", WT, "HEAD"]).returncode == 0
meta = {"id": sid, "property": prop, "source": src, "demo_path": dest, "demo_cmd": " ".join(cmd), "repo_head": subprocess.run(["git", "-C", "/repo", "rev-parse", "--short", "HEAD"], capture_output=True, text=True).stdout.strip()}
try:
    demo_dst = os.path.join(WT, dest)
    os.makedirs(os.path.dirname(demo_dst), exist_ok=True)
    shutil.copy(os.path.join(src, "demo.rs"), demo_dst)
    r = sh(cmd)
    meta["demo_without_change"] = {"exit": r.returncode, "tail": r.stdout[-600:]}
    print("demo without change: exit", r.returncode)
    r = sh(["git", "apply", "--whitespace=nowarn", os.path.join(src, "patch.diff")])
    if r.returncode != 0:
        r = sh(["git", "apply", "-3", "--whitespace=nowarn", os.path.join(src, "patch.diff")])
    meta["patch_applies"] = r.returncode == 0
    print("patch applies:", r.returncode == 0, r.stdout[-300:])
    if r.returncode == 0:
        os.remove(demo_dst)
        diff = sh(["git", "diff", "HEAD", "--", "."]).stdout
        t0 = time.time()
        r = sh(["cargo", "test", "--workspace", "--offline", "--no-fail-fast"])
        if r.returncode != 0:
            # the repository has a few timing-based tests that occasionally fail on a loaded machine
            meta["suite_first_attempt_failed"] = [l for l in r.stdout.splitlines() if l.startswith("test ") and "FAILED" in l][:6]
            r = sh(["cargo", "test", "--workspace", "--offline", "--no-fail-fast"])
        passed = sum(int(l.split("ok. ")[1].split(" passed")[0]) for l in r.stdout.splitlines() if l.startswith("test result: ok."))
        failed = [l for l in r.stdout.splitlines() if l.startswith("test result: FAILED")]
        meta["suite_with_change"] = {"exit": r.returncode, "passed": passed, "failed_result_lines": failed[:5], "seconds": round(time.time() - t0)}
        print("suite with change: exit", r.returncode, "passed", passed, failed[:2])
        shutil.copy(os.path.join(src, "demo.rs"), demo_dst)
        r = sh(cmd)
        meta["demo_with_change"] = {"exit": r.returncode, "tail": r.stdout[-900:]}
        print("demo with change: exit", r.returncode)
        ok = meta["demo_without_change"]["exit"] == 0 and meta["suite_with_change"]["exit"] == 0 and meta["demo_with_change"]["exit"] != 0
        meta["confirmed"] = ok
        if ok:
            os.makedirs(OUT, exist_ok=True)
            open(os.path.join(OUT, "patch.diff"), "w").write(diff)
            shutil.copy(os.path.join(src, "demo.rs"), os.path.join(OUT, "demo.rs"))
            if os.path.exists(os.path.join(src, "NOTES.md")):
                shutil.copy(os.path.join(src, "NOTES.md"), os.path.join(OUT, "NOTES.md"))
    else:
        meta["confirmed"] = False
finally:
    subprocess.run(["git", "-C", "/repo", "worktree", "remove", "--force", WT], capture_output=True)
if meta.get("confirmed"):
    json.dump(meta, open(os.path.join(OUT, "meta.json"), "w"), indent=1)
print("CONFIRMED" if meta.get("confirmed") else "NOT CONFIRMED", sid)
