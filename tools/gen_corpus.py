#!/usr/bin/env python3
"""Generates /verif/harness/corpus/src/gen.rs: a corpus of #[cache] / #[cache_async] functions
covering attribute presence/values x signature shapes, each with an undecorated twin, a uniform
call wrapper and a descriptor holding the configuration *as intended by this generator* (the
oracle side of C19: it never looks at what cachelito's parser made of the attributes).

    gen_corpus.py [--seed N] [--count N] [--out FILE]

Deterministic in (seed, count).
"""
import argparse, os, random

ap = argparse.ArgumentParser()
ap.add_argument("--seed", type=int, default=1)
ap.add_argument("--count", type=int, default=420)
ap.add_argument("--out", default=os.path.join(os.path.dirname(os.path.abspath(__file__)), "..", "harness", "corpus", "src", "gen.rs"))
args = ap.parse_args()
R = random.Random(args.seed)

# ---------------------------------------------------------------------------------------------
# argument shapes: (id, [(name, type)], mk(slot) expr producing owned tuple, call-arg exprs, digest refs)
# slot -> distinct tuples for distinct slots (slot < 64)
# ---------------------------------------------------------------------------------------------
SHAPES = [
    dict(id="a0", params=[], owned="()", mk="()", pass_=[], dig=[], nslots=1),
    dict(id="a1", params=[("a", "u32")], owned="(u32,)", mk="(slot + 7,)", pass_=["t.0"], dig=["a"], nslots=64),
    dict(id="a2", params=[("a", "i64"), ("b", "bool")], owned="(i64, bool)", mk="(-(((slot / 2) as i64)) * 1000003, slot % 2 == 0)", pass_=["t.0", "t.1"], dig=["a", "b"], nslots=64),
    dict(id="a3", params=[("a", "String")], owned="(String,)", mk='(format!("s|{}\\"x", slot),)', pass_=["t.0.clone()"], dig=["a"], nslots=64),
    dict(id="a4", params=[("a", "&str")], owned="(String,)", mk='(format!("r{} y", slot),)', pass_=["t.0.as_str()"], dig=["a"], nslots=64),
    dict(id="a5", params=[("a", "u8"), ("b", "String"), ("c", "Option<i32>")], owned="(u8, String, Option<i32>)",
         mk='((slot % 4) as u8, format!("b{}", slot / 4 % 4), if slot / 16 == 0 { None } else { Some(slot as i32 / 16 - 2) })', pass_=["t.0", "t.1.clone()", "t.2"], dig=["a", "b", "c"], nslots=64),
    dict(id="a6", params=[("a", "Vec<u16>"), ("b", "char")], owned="(Vec<u16>, char)",
         mk="(std::iter::once((slot / 16) as u16).chain(0..(slot % 4) as u16).collect(), ['|', 'a', '\"', 'z'][(slot as usize / 4) % 4])", pass_=["t.0.clone()", "t.1"], dig=["a", "b"], nslots=64),
    dict(id="a7", params=[("a", "(u8, String)"), ("b", "f64")], owned="((u8, String), f64)",
         mk='(((slot % 3) as u8, format!("t{}", slot / 3 % 5)), (slot / 15) as f64 * 0.5 - 1.0)', pass_=["t.0.clone()", "t.1"], dig=["a", "b"], nslots=60),
    dict(id="a8", params=[("a", "u16"), ("b", "u16"), ("c", "u16"), ("d", "u16")], owned="(u16, u16, u16, u16)",
         mk="((slot % 2) as u16 * 11, (slot / 2 % 2) as u16 * 1, (slot / 4 % 4) as u16 * 111, (slot / 16) as u16)", pass_=["t.0", "t.1", "t.2", "t.3"], dig=["a", "b", "c", "d"], nslots=64),
    dict(id="a9", params=[("p", "Point")], owned="(Point,)", mk='(Point { x: slot as i32 - 5, label: format!("p{}", slot % 3) },)', pass_=["t.0.clone()"], dig=["p"], nslots=64),
]
SHAPE_BY_ID = {s["id"]: s for s in SHAPES}

# return kinds: type, builder from Exec `x`, reader -> (value, ok), sized?, is_result, memory-capable
RETS = {
    "u64": dict(ty="u64", mk="x.value", rd="(*r, true)", sized=False, result=False),
    "string": dict(ty="String", mk="vhooks::mk_string(x.value, x.len)", rd="(vhooks::rd_string(r), true)", sized=True, result=False),
    "bytes": dict(ty="Vec<u8>", mk="vhooks::mk_bytes(x.value, x.len)", rd="(vhooks::rd_bytes(r), true)", sized=True, result=False),
    "opt_u64": dict(ty="Option<u64>", mk="Some(x.value)", rd="(r.unwrap(), true)", sized=False, result=False),
    "opt_string": dict(ty="Option<String>", mk="Some(vhooks::mk_string(x.value, x.len))", rd="(vhooks::rd_string(r.as_ref().unwrap()), true)", sized=True, result=False),
    "res_u64": dict(ty="Result<u64, String>", mk="if x.ok { Ok(x.value) } else { Err(vhooks::mk_string(x.value, 16)) }",
                    rd="match r { Ok(v) => (*v, true), Err(e) => (vhooks::rd_string(e), false) }", sized=False, result=True),
    "std_res_string": dict(ty="std::result::Result<String, String>", mk="if x.ok { Ok(vhooks::mk_string(x.value, x.len)) } else { Err(vhooks::mk_string(x.value, 16)) }",
                           rd="match r { Ok(v) => (vhooks::rd_string(v), true), Err(e) => (vhooks::rd_string(e), false) }", sized=True, result=True),
    "pair": dict(ty="(String, Vec<u32>)", mk="(vhooks::mk_string(x.value, x.len), vec![1u32, 2, 3])", rd="(vhooks::rd_string(&r.0), true)", sized=True, result=False),
    "boxed": dict(ty="Box<String>", mk="Box::new(vhooks::mk_string(x.value, x.len))", rd="(vhooks::rd_string(r), true)", sized=True, result=False),
    "vec_box": dict(ty="Vec<Box<String>>", mk="vec![Box::new(vhooks::mk_string(x.value, x.len))]", rd="(vhooks::rd_string(&r[0]), true)", sized=True, result=False),
    "opt_box": dict(ty="Option<Box<String>>", mk="Some(Box::new(vhooks::mk_string(x.value, x.len)))", rd="(vhooks::rd_string(r.as_ref().unwrap()), true)", sized=True, result=False),
    "res_vec": dict(ty="Result<Vec<String>, String>", mk="if x.ok { Ok(vec![vhooks::mk_string(x.value, x.len)]) } else { Err(vhooks::mk_string(x.value, 16)) }",
                    rd="match r { Ok(v) => (vhooks::rd_string(&v[0]), true), Err(e) => (vhooks::rd_string(e), false) }", sized=True, result=True),
    "rec": dict(ty="Rec", mk="Rec { v: x.value, s: vhooks::mk_string(x.value, x.len) }", rd="(r.v, true)", sized=True, result=False),
}

POLICIES = ["fifo", "lru", "lfu", "arc", "random", "tlru"]
TAGS = ["t_user", "t_geo", "t_cfg", "shared_a", "shared_b"]
EVENTS = ["e_upd", "e_del", "shared_a", "shared_c"]
DEPS = ["d_db", "d_idx", "shared_b", "shared_c"]
MEMS = [("\"300\"", 300), ("260", 260), ("\"1KB\"", 1024), ("\"2KB\"", 2048)]


def pick_meta(r):
    def some(pool, p):
        return sorted(r.sample(pool, r.randint(1, 2))) if r.random() < p else []
    return some(TAGS, 0.45), some(EVENTS, 0.3), some(DEPS, 0.3)


def make_specs():
    specs = []
    fid = 0
    # systematic part: macro flavour x policy x {limit?} x {ttl?} x {mem?}
    base = []
    for flavour in ["global", "thread", "async"]:
        for pol in POLICIES:
            for has_limit in (False, True):
                for has_ttl in (False, True):
                    for has_mem in (False, True):
                        base.append((flavour, pol, has_limit, has_ttl, has_mem))
    R.shuffle(base)
    combos = base[:]
    while len(combos) < args.count:
        combos.append(R.choice(base))
    combos = combos[: args.count]
    for (flavour, pol, has_limit, has_ttl, has_mem) in combos:
        fid += 1
        s = dict(fid=fid, flavour=flavour)
        s["policy_written"] = pol if (pol != "fifo" or R.random() < 0.5) else None  # fifo is the default
        s["policy"] = pol
        s["limit"] = R.choice([1, 2, 3, 5]) if has_limit else None
        s["ttl"] = R.choice([1, 2, 3]) if has_ttl else None
        s["mem"] = R.choice(MEMS) if has_mem else None
        s["fw"] = R.choice([None, "0.1", "0.3", "1.0", "1.5", "3.0"]) if pol == "tlru" else (R.choice([None, None, "1.5"]) if R.random() < 0.1 else None)
        s["scope_written"] = {"global": R.choice([None, "global"]), "thread": "thread", "async": None}[flavour]
        # thread-scope functions may carry name / tags / events / dependencies too: they must stay
        # per-thread caches all the same (and never show up in the registries)
        s["name"] = f"named_{fid}" if R.random() < 0.3 else None
        s["tags"], s["events"], s["deps"] = pick_meta(R)
        s["cache_if"] = R.random() < 0.25
        s["invalidate_on"] = R.random() < 0.25
        # return kind
        if has_mem:
            s["ret"] = R.choice(["string", "bytes", "opt_string", "std_res_string", "pair", "boxed", "rec", "string", "u64", "vec_box", "opt_box", "res_vec"])
        else:
            s["ret"] = R.choice(["u64", "u64", "string", "opt_u64", "res_u64", "std_res_string", "res_u64", "rec", "rec"])
        s["shape"] = R.choice(SHAPES)["id"]
        s["receiver"] = R.choice(["free", "free", "free", "ref", "mutref", "value"])
        if s["receiver"] != "free" and s["shape"] == "a0":
            s["shape"] = R.choice(["a0", "a1"])
        s["gates"] = R.randint(1, 3) if flavour == "async" else 0
        specs.append(s)
    # concurrency family: plain bounded caches (no ttl / max_memory / predicates) for every policy,
    # so that eviction-order and popularity probes after a concurrent phase have subjects;
    # half of them return `Rec`, whose Clone is a scheduling point inside the cache's read lock
    for flavour in ["global", "async"]:
        for pol in POLICIES:
            for lim in (1, 2, 3):
                fid += 1
                s = dict(fid=fid, flavour=flavour, policy=pol, policy_written=pol, limit=lim, ttl=None, mem=None, fw=None,
                         scope_written=None, name=None, cache_if=False, invalidate_on=False,
                         ret=["rec", "u64", "rec"][lim - 1], shape=["a1", "a3", "a5"][lim - 1], receiver="free", gates=1 if flavour == "async" else 0)
                s["tags"], s["events"], s["deps"] = (["t_conc"], [], []) if lim == 2 else ([], [], [])
                specs.append(s)
    # "never expires" family: ttls far beyond what any clock reaches (appended: earlier ids stay).
    # Such an entry is always live; every store, hit and eviction has to work as without a ttl.
    huge = [18446744073709551615, 9223372036854775808, 18446744073709552, 9223372037]
    n = 0
    for flavour in ["global", "thread", "async"]:
        for pol in POLICIES:
            for variant in (0, 1):
                fid += 1
                n += 1
                s = dict(fid=fid, flavour=flavour, policy=pol, policy_written=pol, limit=[2, None][variant], ttl=huge[n % len(huge)],
                         mem=[None, MEMS[n % len(MEMS)]][variant], fw=("1.5" if pol == "tlru" and n % 4 < 2 else None),
                         scope_written={"global": None, "thread": "thread", "async": None}[flavour], name=None, cache_if=False, invalidate_on=False,
                         ret=["u64", "string"][variant], shape=["a1", "a3"][variant], receiver="free", gates=1 if flavour == "async" else 0)
                s["tags"], s["events"], s["deps"] = ([], [], [])
                specs.append(s)
    # "effectively unbounded" limits and ttl = 0 (every entry is expired at once: never served)
    n = 0
    for flavour in ["global", "thread", "async"]:
        for pol in POLICIES:
            for variant in (0, 1, 2):
                fid += 1
                n += 1
                limit, ttl = [(18446744073709551615, None), (1000000000000000000, [None, 2][n % 2]), ([None, 2][n % 2], 0)][variant]
                s = dict(fid=fid, flavour=flavour, policy=pol, policy_written=pol, limit=limit, ttl=ttl,
                         mem=(MEMS[n % len(MEMS)] if n % 3 == 0 else None), fw=("0.3" if pol == "tlru" and n % 2 else None),
                         scope_written={"global": None, "thread": "thread", "async": None}[flavour], name=None, cache_if=False, invalidate_on=False,
                         ret=["u64", "string", "rec"][variant], shape=["a1", "a3", "a2"][variant], receiver="free", gates=1 if flavour == "async" else 0)
                s["tags"], s["events"], s["deps"] = ([], [], [])
                specs.append(s)
    # labels that are not plain lower-case identifiers: a request matches a declaration only if it
    # is spelled exactly like it (C12), and the lower-cased / trimmed spelling matches nothing (C13)
    labels = [(["UserData", " padded "], ["E_Upper"], ["Dep.X"]), (["userdata"], ["e_upper"], ["dep.x"]), (["UserData"], [], ["Dep.X", "padded"]), ([], ["E_Upper", "e_upper"], [])]
    n = 0
    for flavour in ["global", "async"]:
        for (tg, ev, dp) in labels:
            fid += 1
            n += 1
            s = dict(fid=fid, flavour=flavour, policy=POLICIES[n % 6], policy_written=POLICIES[n % 6], limit=[None, 3][n % 2], ttl=None, mem=None, fw=None,
                     scope_written=None, name=(f"Named_{fid}" if n % 3 == 0 else None), cache_if=False, invalidate_on=False,
                     ret="u64", shape="a1", receiver="free", gates=1 if flavour == "async" else 0)
            s["tags"], s["events"], s["deps"] = (tg, ev, dp)
            specs.append(s)
    # dependency chains: a cache that declares another cache's *name* as its dependency.  Only the
    # request that names a label a cache declares itself reaches it: invalidating `src` by its tag
    # leaves `mid` alone, invalidating by dependency "chainK_src" empties `mid` and not `top`.
    # (l2mon keeps the members of a chain in one group.)
    for k, flavours in enumerate([("global", "global", "global"), ("async", "async", "async"), ("global", "async", "global")], start=1):
        for pos, flavour in zip(("src", "mid", "top"), flavours):
            fid += 1
            s = dict(fid=fid, flavour=flavour, policy="fifo", policy_written=None, limit=[None, 4][k % 2], ttl=None, mem=None, fw=None,
                     scope_written=None, name=f"chain{k}_{pos}", cache_if=False, invalidate_on=False,
                     ret="u64", shape="a1", receiver="free", gates=1 if flavour == "async" else 0)
            s["tags"], s["events"], s["deps"] = {"src": ([f"t_chain{k}"], [f"e_chain{k}"], [f"d_chain{k}"]), "mid": ([], [], [f"chain{k}_src"]), "top": ([], [], [f"chain{k}_mid"])}[pos]
            specs.append(s)
    return specs


def same_segment(s):
    # both predicates given as module paths that end in the same identifier (every other function
    # that has both): each attribute still has to reach its own function
    return s["cache_if"] and s["invalidate_on"] and s["fid"] % 2 == 0


def attr_list(s):
    parts = []
    if s["limit"] is not None:
        parts.append(f"limit = {s['limit']}")
    if s["policy_written"]:
        parts.append(f"policy = \"{s['policy_written']}\"")
    if s["ttl"] is not None:
        parts.append(f"ttl = {s['ttl']}")
    if s["scope_written"]:
        parts.append(f"scope = \"{s['scope_written']}\"")
    if s["mem"]:
        parts.append(f"max_memory = {s['mem'][0]}")
    if s["fw"]:
        parts.append(f"frequency_weight = {s['fw']}")
    if s["name"]:
        parts.append(f"name = \"{s['name']}\"")
    for k in ("tags", "events"):
        if s[k]:
            parts.append(f"{k} = [" + ", ".join(f'"{x}"' for x in s[k]) + "]")
    if s["deps"]:
        parts.append("dependencies = [" + ", ".join(f'"{x}"' for x in s["deps"]) + "]")
    if s["cache_if"]:
        parts.append(f"cache_if = adm_{s['fid']}::check" if same_segment(s) else f"cache_if = pred_{s['fid']}")
    if s["invalidate_on"]:
        parts.append(f"invalidate_on = inv_{s['fid']}::check" if same_segment(s) else f"invalidate_on = chk_{s['fid']}")
    rr = random.Random(s["fid"] * 7919 + args.seed)
    rr.shuffle(parts)
    return ", ".join(parts)


def rs_opt(v, suffix=""):
    return "None" if v is None else f"Some({v}{suffix})"


def emit(specs):
    o = []
    w = o.append
    w("// @generated by /verif/tools/gen_corpus.py --seed %d --count %d — do not edit" % (args.seed, args.count))
    w("#![allow(unused_variables, unused_mut, dead_code, clippy::all)]")
    w("use cachelito::cache;")
    w("use cachelito_async::cache_async;")
    w("use vhooks::{CallOut, FnDesc, Footprint};")
    w("")
    w("#[derive(Debug, Clone, PartialEq)]\npub struct Point { pub x: i32, pub label: String }")
    w("impl cachelito_core::DefaultCacheableKey for Point {}")
    w("impl vhooks::Dg for Point { fn dg(&self, h: &mut vhooks::Hs) { h.byte(90); self.x.dg(h); self.label.dg(h); } }")
    w("#[derive(Debug, Clone, PartialEq)]\npub struct Svc { pub id: u32, pub tag: String }")
    w("impl cachelito_core::DefaultCacheableKey for Svc {}")
    w("impl vhooks::Dg for Svc { fn dg(&self, h: &mut vhooks::Hs) { h.byte(91); self.id.dg(h); self.tag.dg(h); } }")
    w("#[derive(Debug, PartialEq)]\npub struct Rec { pub v: u64, pub s: String }")
    w("impl Clone for Rec { fn clone(&self) -> Self { vhooks::clone_point(); Rec { v: self.v, s: self.s.clone() } } }")
    w("impl cachelito_core::MemoryEstimator for Rec { fn estimate_memory(&self) -> usize { std::mem::size_of::<Self>() + self.s.capacity() } }")
    w("impl Footprint for Rec { fn heap(&self) -> usize { self.s.capacity() } }")
    w("impl vhooks::Dg for Rec { fn dg(&self, h: &mut vhooks::Hs) { h.byte(92); self.v.dg(h); self.s.dg(h); } }")
    w("fn svc_of(slot: u32) -> Svc { Svc { id: slot % 2, tag: format!(\"svc|{}\", slot % 2) } }")
    w("")
    descs = []
    for s in specs:
        fid = s["fid"]
        sh = SHAPE_BY_ID[s["shape"]]
        rt = RETS[s["ret"]]
        is_async = s["flavour"] == "async"
        recv = s["receiver"]
        attrs = attr_list(s)
        macro = "cache_async" if is_async else "cache"
        params = ", ".join(f"{n}: {t}" for n, t in sh["params"])
        dig_items = [f"&{d}" for d in sh["dig"]]
        if recv != "free":
            dig_items = ["&self.id", "&self.tag"] + dig_items
        dig_expr = "vhooks::dg(&(" + "".join(x + ", " for x in dig_items) + "))" if dig_items else "vhooks::dg(&())"
        self_param = {"free": "", "ref": "&self", "mutref": "&mut self", "value": "self"}[recv]
        full_params = ", ".join([p for p in [self_param, params] if p])
        asyncness = "async " if is_async else ""
        gates = "".join("        vhooks::gate().await;\n" for _ in range(s["gates"]))
        # a third of the bodies leave through an explicit `return` for half of their results (the
        # store has to happen whichever way the body is left)
        early = (fid * 2654435761 >> 7) % 3 == 0
        early_txt = f"        if x.value % 4 < 2 {{\n            return {rt['mk']};\n        }}\n" if early else ""
        body_dec = f"        let x = vhooks::enter({fid}, {dig_expr});\n{gates}{early_txt}        {rt['mk']}\n"
        body_twin = f"        let x = vhooks::twin({fid}, {dig_expr});\n        {rt['mk']}\n"
        fname, tname = f"f{fid}", f"t{fid}"
        attr_line = f"#[{macro}({attrs})]" if attrs else f"#[{macro}]"
        if same_segment(s):
            w(f"mod adm_{fid} {{ use super::*; pub fn check(k: &String, v: &{rt['ty']}) -> bool {{ vhooks::pred({fid}, k, vhooks::dg(v)) }} }}")
            w(f"mod inv_{fid} {{ use super::*; pub fn check(k: &String, v: &{rt['ty']}) -> bool {{ vhooks::check({fid}, k, vhooks::dg(v)) }} }}")
        else:
            if s["cache_if"]:
                w(f"fn pred_{fid}(k: &String, v: &{rt['ty']}) -> bool {{ vhooks::pred({fid}, k, vhooks::dg(v)) }}")
            if s["invalidate_on"]:
                w(f"fn chk_{fid}(k: &String, v: &{rt['ty']}) -> bool {{ vhooks::check({fid}, k, vhooks::dg(v)) }}")
        if recv == "free":
            w(f"{attr_line}\npub {asyncness}fn {fname}({full_params}) -> {rt['ty']} {{\n{body_dec}}}")
            w(f"pub fn {tname}({full_params}) -> {rt['ty']} {{\n{body_twin}}}")
        else:
            w(f"impl Svc {{\n    {attr_line}\n    pub {asyncness}fn {fname}({full_params}) -> {rt['ty']} {{\n{body_dec}    }}\n    pub fn {tname}({full_params}) -> {rt['ty']} {{\n{body_twin}    }}\n}}")
        # call wrapper
        nslots = sh["nslots"]
        mk = sh["mk"]
        passes = ", ".join(sh["pass_"])
        if recv == "free":
            callee_f, callee_t = f"{fname}({passes})", f"{tname}({passes})"
            argslot = "slot"
            pre = f"let t: {sh['owned']} = {mk};"
            dig_call_items = [f"&t.{i}" for i in range(len(sh["params"]))]
        else:
            # receiver from slot parity, args from slot / 2
            pre = f"let mut svc = svc_of(slot); let slot = slot / 2; let t: {sh['owned']} = {mk};"
            recv_expr = {"ref": "svc", "mutref": "svc", "value": "svc.clone()"}[recv]
            callee_f, callee_t = f"{recv_expr}.{fname}({passes})", f"{recv_expr}.{tname}({passes})"
            dig_call_items = ["&svc.id", "&svc.tag"] + [f"&t.{i}" for i in range(len(sh["params"]))]
        dig_call = "vhooks::dg(&(" + "".join(x + ", " for x in dig_call_items) + "))" if dig_call_items else "vhooks::dg(&())"
        await_ = ".await" if is_async else ""
        out_expr = ("let r = &r; let (value, ok) = " + rt["rd"] + "; let tw = &tw; let twin = { let r = tw; " + rt["rd"] + " }.0; "
                    "CallOut { value, ok, fp: r.footprint(), rdig: vhooks::dg(r), twin }")
        if is_async:
            w(f"pub fn fut_{fid}(slot: u32) -> vhooks::BoxFut {{ Box::pin(async move {{ {pre} let tw = {callee_t}; let r = {callee_f}{await_}; {out_expr} }}) }}")
            w(f"pub fn call_{fid}(slot: u32) -> CallOut {{ vhooks::block_on(fut_{fid}(slot)) }}")
        else:
            w(f"pub fn call_{fid}(slot: u32) -> CallOut {{ {pre} let tw = {callee_t}; let r = {callee_f}; {out_expr} }}")
        w(f"pub fn dig_{fid}(slot: u32) -> u64 {{ {pre} {dig_call} }}")
        w("")
        reg_name = s["name"] or fname
        memv = s["mem"][1] if s["mem"] else None
        fwv = None if not s["fw"] else (s["fw"] if "." in s["fw"] else s["fw"] + ".0")
        eff_slots = nslots if recv == "free" else min(64, nslots * 2)
        descs.append(
            "    FnDesc { fid: %d, fn_name: \"%s\", reg_name: \"%s\", is_async: %s, scope_thread: %s, policy: \"%s\", limit: %s, ttl: %s, max_memory: %s, fw: %s, "
            "ret_kind: \"%s\", is_result: %s, sized: %s, has_cache_if: %s, has_invalidate_on: %s, tags: &[%s], events: &[%s], deps: &[%s], nslots: %d, gates: %d, receiver: \"%s\", nargs: %d, attr_text: %s, "
            "call: call_%d, digest: dig_%d, fut: %s },"
            % (fid, fname, reg_name, str(is_async).lower(), str(s["flavour"] == "thread").lower(), s["policy"], rs_opt(s["limit"]), rs_opt(s["ttl"]), rs_opt(memv), rs_opt(fwv),
               s["ret"], str(rt["result"]).lower(), str(rt["sized"]).lower(), str(s["cache_if"]).lower(), str(s["invalidate_on"]).lower(),
               ", ".join(f'"{x}"' for x in s["tags"]), ", ".join(f'"{x}"' for x in s["events"]), ", ".join(f'"{x}"' for x in s["deps"]),
               eff_slots, s["gates"], recv, len(sh["params"]), "r####\"" + attr_line + "\"####", fid, fid, (f"Some(fut_{fid})" if is_async else "None")))
    w("pub static FUNCS: &[FnDesc] = &[")
    o.extend(descs)
    w("];")
    w("")
    emit_extras(w)
    return "\n".join(o) + "\n"


def emit_extras(w):
    """Forms the descriptor-driven monitors cannot express: functions that call themselves *by
    name* from their own body (what a recursive memoised function does) and functions that
    return nothing.  Checked by l2mon's extras probe with a few direct rules."""
    w("// ---- extras: self-recursive (by name) and unit-returning functions")
    w("pub struct ExtraDesc { pub fid: u32, pub kind: &'static str, pub fn_name: &'static str, pub is_async: bool, pub scope_thread: bool, pub policy: &'static str, pub limit: Option<usize>, pub attr_text: &'static str, pub call: fn(u32) -> u64, pub digest: fn(u32) -> u64 }")
    rows = []
    fid = 9000
    recs = [("cache", ""), ("cache", 'limit = 3, policy = "lru"'), ("cache", 'limit = 2'), ("cache", 'policy = "lfu", limit = 4'), ("cache", 'scope = "thread"'), ("cache", 'scope = "thread", limit = 2, policy = "lru"'),
            ("cache", 'scope = "thread", policy = "arc", limit = 3'), ("cache", 'max_memory = "1KB", policy = "tlru"'), ("cache_async", ""), ("cache_async", 'limit = 3, policy = "lru"'), ("cache_async", 'limit = 2, policy = "fifo"'), ("cache_async", 'policy = "arc", limit = 4, ttl = 3600')]
    for macro, attrs in recs:
        fid += 1
        is_async = macro == "cache_async"
        attr_line = f"#[{macro}({attrs})]" if attrs else f"#[{macro}]"
        name = f"rec_{fid}"
        inner = f"Box::pin({name}(a - 1)).await" if is_async else f"{name}(a - 1)"
        w(f"{attr_line}\npub {'async ' if is_async else ''}fn {name}(a: u32) -> u64 {{\n        let x = vhooks::enter({fid}, vhooks::dg(&(&a, )));\n        if a % 16 == 0 {{ x.value }} else {{ x.value.wrapping_add({inner}) }}\n}}")
        w(f"pub fn xcall_{fid}(a: u32) -> u64 {{ {'vhooks::block_on(' + name + '(a))' if is_async else name + '(a)'} }}")
        w(f"pub fn xdig_{fid}(a: u32) -> u64 {{ vhooks::dg(&(&a, )) }}")
        lim = None
        import re as _re
        m = _re.search(r"limit = (\d+)", attrs)
        if m:
            lim = int(m.group(1))
        pol = (_re.search(r'policy = "(\w+)"', attrs) or [None, "fifo"])[1]
        rows.append((fid, "rec", name, is_async, 'scope = "thread"' in attrs, pol, lim, attr_line))
    units = [("cache", "", ""), ("cache", "limit = 8", " -> ()"), ("cache", 'scope = "thread"', ""), ("cache", 'name = "unit_named"', " -> ()"), ("cache_async", "", ""), ("cache_async", 'limit = 8, policy = "lru"', " -> ()")]
    for macro, attrs, arrow in units:
        fid += 1
        is_async = macro == "cache_async"
        attr_line = f"#[{macro}({attrs})]" if attrs else f"#[{macro}]"
        name = f"unit_{fid}"
        w(f"{attr_line}\npub {'async ' if is_async else ''}fn {name}(a: u32){arrow} {{\n        let _x = vhooks::enter({fid}, vhooks::dg(&(&a, )));\n}}")
        w(f"pub fn xcall_{fid}(a: u32) -> u64 {{ {'vhooks::block_on(' + name + '(a))' if is_async else name + '(a)'}; 0 }}")
        w(f"pub fn xdig_{fid}(a: u32) -> u64 {{ vhooks::dg(&(&a, )) }}")
        m = _re.search(r"limit = (\d+)", attrs)
        lim = int(m.group(1)) if m else None
        pol = (_re.search(r'policy = "(\w+)"', attrs) or [None, "fifo"])[1]
        rows.append((fid, "unit", name, is_async, 'scope = "thread"' in attrs, pol, lim, attr_line))
    # Option-returning functions that do return None for a third of their arguments: None is an
    # ordinary value, computed once and reused like any other
    opts = [("cache", ""), ("cache", 'limit = 8, policy = "lru"'), ("cache", 'scope = "thread"'), ("cache_async", ""), ("cache_async", 'limit = 8'), ("cache", 'max_memory = "1KB"')]
    for macro, attrs in opts:
        fid += 1
        is_async = macro == "cache_async"
        attr_line = f"#[{macro}({attrs})]" if attrs else f"#[{macro}]"
        name = f"optn_{fid}"
        w(f"{attr_line}\npub {'async ' if is_async else ''}fn {name}(a: u32) -> Option<u64> {{\n        let x = vhooks::enter({fid}, vhooks::dg(&(&a, )));\n        if a % 3 == 0 {{ None }} else {{ Some(x.value) }}\n}}")
        w(f"pub fn xcall_{fid}(a: u32) -> u64 {{ {'vhooks::block_on(' + name + '(a))' if is_async else name + '(a)'}.unwrap_or(0) }}")
        w(f"pub fn xdig_{fid}(a: u32) -> u64 {{ vhooks::dg(&(&a, )) }}")
        m = _re.search(r"limit = (\d+)", attrs)
        lim = int(m.group(1)) if m else None
        pol = (_re.search(r'policy = "(\w+)"', attrs) or [None, "fifo"])[1]
        rows.append((fid, "opt", name, is_async, 'scope = "thread"' in attrs, pol, lim, attr_line))
    # two caches registered under one name, and one function name in two modules: whatever the
    # registries make of the clash, every *other* cache must be unaffected (they are called first)
    dups = [("cache", 'name = "dup_shared_name"', "dup_a"), ("cache_async", 'name = "dup_shared_name", limit = 4', "dup_b"), ("cache", "limit = 5", "dup_m1::same_name"), ("cache", "", "dup_m2::same_name")]
    for macro, attrs, path in dups:
        fid += 1
        is_async = macro == "cache_async"
        attr_line = f"#[{macro}({attrs})]" if attrs else f"#[{macro}]"
        body = f"{attr_line}\npub {'async ' if is_async else ''}fn {path.split('::')[-1]}(a: u32) -> u64 {{\n        let x = vhooks::enter({fid}, vhooks::dg(&(&a, )));\n        x.value\n}}"
        if "::" in path:
            w(f"pub mod {path.split('::')[0]} {{\nuse cachelito::cache;\n{body}\n}}")
        else:
            w(body)
        w(f"pub fn xcall_{fid}(a: u32) -> u64 {{ {'vhooks::block_on(' + path + '(a))' if is_async else path + '(a)'} }}")
        w(f"pub fn xdig_{fid}(a: u32) -> u64 {{ vhooks::dg(&(&a, )) }}")
        rows.append((fid, "dup", path, is_async, False, "fifo", None, attr_line))
    # Result functions stamped out by a macro_rules! template that receives the return type as a
    # `$ret:ty` fragment (the compiler hands it to the attribute macro inside an invisible group):
    # they are Result functions like any other - an Err is never stored
    w("macro_rules! stamp_result { ($(#[$m:meta])* fn $name:ident, $fid:expr, $ret:ty) => { $(#[$m])* pub fn $name(a: u32) -> $ret { let x = vhooks::enter($fid, vhooks::dg(&(&a, ))); if a % 3 == 0 { Err(format!(\"e{}\", a)) } else { Ok(x.value) } } }; ($(#[$m:meta])* async fn $name:ident, $fid:expr, $ret:ty) => { $(#[$m])* pub async fn $name(a: u32) -> $ret { let x = vhooks::enter($fid, vhooks::dg(&(&a, ))); if a % 3 == 0 { Err(format!(\"e{}\", a)) } else { Ok(x.value) } } }; }")
    mres = [("cache", "", "Result<u64, String>"), ("cache", 'scope = "thread", policy = "lru"', "Result<u64, String>"), ("cache", 'limit = 8, policy = "lru"', "std::result::Result<u64, String>"), ("cache_async", "", "Result<u64, String>"), ("cache_async", 'limit = 8', "Result<u64, String>"), ("cache", 'max_memory = "1KB"', "Result<u64, String>")]
    for macro, attrs, ret in mres:
        fid += 1
        is_async = macro == "cache_async"
        attr_line = f"#[{macro}({attrs})]" if attrs else f"#[{macro}]"
        name = f"mres_{fid}"
        w(f"stamp_result!({attr_line} {'async ' if is_async else ''}fn {name}, {fid}, {ret});")
        w(f"pub fn xcall_{fid}(a: u32) -> u64 {{ {'vhooks::block_on(' + name + '(a))' if is_async else name + '(a)'}.unwrap_or(u64::MAX) }}")
        w(f"pub fn xdig_{fid}(a: u32) -> u64 {{ vhooks::dg(&(&a, )) }}")
        m = _re.search(r"limit = (\d+)", attrs)
        lim = int(m.group(1)) if m else None
        pol = (_re.search(r'policy = "(\w+)"', attrs) or [None, "fifo"])[1]
        rows.append((fid, "mres", name, is_async, 'scope = "thread"' in attrs, pol, lim, attr_line))
    # a 64 KiB memory bound that a hundred small values fit under, and values that need most of
    # it: long vectors whose elements own heap very unevenly (l2mon's big-memory probe sums the
    # footprints of the listed entries after every call)
    w("pub const BIGM_BOUND: usize = 65_536;")
    # (every capacity equals the length, so that a clone of the value occupies what the value does)
    w("pub fn big_value(a: u32) -> Vec<String> {\n    if a < 1000 {\n        vec![\"y\".repeat(480 + (a % 7) as usize * 16)].into_boxed_slice().into_vec()\n    } else {\n        let n = 1100 + (a % 300) as usize;\n        let empty = 150 + (a % 90) as usize;\n        let target = 50_000 + (a % 5) as usize * 2_500;\n        let each = (target - 24 - n * 24) / (n - empty - 1);\n        let mut v = Vec::with_capacity(n);\n        v.push(format!(\"{:016x}\", a).into_boxed_str().into_string());\n        for _ in 0..empty { v.push(String::new()); }\n        while v.len() < n { v.push(\"z\".repeat(each)); }\n        v.into_boxed_slice().into_vec()\n    }\n}")
    w("pub fn big_footprint(a: u32) -> usize { let v = big_value(a); let c = v.clone(); assert_eq!(vhooks::Footprint::footprint(&v), vhooks::Footprint::footprint(&c)); vhooks::Footprint::footprint(&c) }")
    bigs = [("cache", 'max_memory = "64KB"'), ("cache", 'policy = "lru", max_memory = "64KB"'), ("cache_async", 'max_memory = "64KB"'), ("cache_async", 'max_memory = "64KB", policy = "lfu"')]
    for macro, attrs in bigs:
        fid += 1
        is_async = macro == "cache_async"
        attr_line = f"#[{macro}({attrs})]"
        name = f"bigm_{fid}"
        w(f"{attr_line}\npub {'async ' if is_async else ''}fn {name}(a: u32) -> Vec<String> {{\n        let _x = vhooks::enter({fid}, vhooks::dg(&(&a, )));\n        big_value(a)\n}}")
        w(f"pub fn xcall_{fid}(a: u32) -> u64 {{ {'vhooks::block_on(' + name + '(a))' if is_async else name + '(a)'}.len() as u64 }}")
        w(f"pub fn xdig_{fid}(a: u32) -> u64 {{ vhooks::dg(&(&a, )) }}")
        pol = (_re.search(r'policy = "(\w+)"', attrs) or [None, "fifo"])[1]
        rows.append((fid, "bigm", name, is_async, False, pol, None, attr_line))
    w("pub static EXTRAS: &[ExtraDesc] = &[")
    for (fid, kind, name, is_async, th, pol, lim, attr_line) in rows:
        w("    ExtraDesc { fid: %d, kind: \"%s\", fn_name: \"%s\", is_async: %s, scope_thread: %s, policy: \"%s\", limit: %s, attr_text: %s, call: xcall_%d, digest: xdig_%d },"
          % (fid, kind, name, str(is_async).lower(), str(th).lower(), pol, rs_opt(lim), "r####\"" + attr_line + "\"####", fid, fid))
    w("];")


specs = make_specs()
src = emit(specs)
os.makedirs(os.path.dirname(args.out), exist_ok=True)
open(args.out, "w").write(src)
print(f"wrote {args.out}: {len(specs)} functions, {len(src)//1024} KiB")
