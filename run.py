#!/usr/bin/env python3
"""Entry point of every registered check:  ./run.py <quick|thorough> <Cxx>   |   ./run.py replay <file>

Rebuilds the harness against /repo's working tree (cargo path dependencies), runs the monitor
processes that decide the property (sharded over the cores), merges their reports, matches
violations against /verif/known_findings.json, writes /verif/evidence/<Cxx>.json and prints

    VIOLATION property=<id> replay=<path>      (exit 1)   for every violation not listed as known
    KNOWN-FINDING: property=<id> <what fails>  (exit 0)   for listed ones

Exit 2 = harness/tool error or inconclusive (never reported as a violation).
"""
import fnmatch, json, os, subprocess, sys, time, shutil, glob

ROOT = os.path.dirname(os.path.abspath(__file__))
HARNESS = os.path.join(ROOT, "harness")
TARGET = os.path.join(ROOT, "target")
OUT = os.path.join(ROOT, "out")
EVID = os.path.join(ROOT, "evidence")
REPLAYS = os.path.join(ROOT, "replays")
JOBS = int(os.environ.get("VERIF_JOBS", "16"))
ENV = dict(os.environ, CARGO_NET_OFFLINE="true", CARGO_TARGET_DIR=TARGET)


def log(*a):
    print(*a, file=sys.stderr, flush=True)


# ------------------------------------------------------------------------------------------
# building
# ------------------------------------------------------------------------------------------
def cargo_build(pkgs, extra=(), toolchain=None, env=None):
    cmd = ["cargo"] + ([f"+{toolchain}"] if toolchain else []) + ["build", "--release", "--offline"]
    for p in pkgs:
        cmd += ["-p", p]
    cmd += list(extra)
    t0 = time.time()
    r = subprocess.run(cmd, cwd=HARNESS, env=env or ENV, stdout=subprocess.PIPE, stderr=subprocess.STDOUT, text=True)
    if r.returncode != 0:
        log(r.stdout[-6000:])
        log(f"HARNESS-ERROR: build of {pkgs} failed (this is not a property verdict)")
        sys.exit(2)
    log(f"[build {' '.join(pkgs)}: {time.time()-t0:.1f}s]")


def bin_path(name):
    return os.path.join(TARGET, "release", name)


# ------------------------------------------------------------------------------------------
# running shards
# ------------------------------------------------------------------------------------------
def run_shards(tag, cmds, timeout_s):
    """cmds: list of (argv, outfile). Runs up to JOBS at a time. Returns list of (outfile, rc, tail)."""
    os.makedirs(OUT, exist_ok=True)
    pending = list(cmds)
    running = []
    results = []
    deadline = time.time() + timeout_s
    while pending or running:
        while pending and len(running) < JOBS:
            argv, outfile = pending.pop(0)
            if os.path.exists(outfile):
                os.remove(outfile)
            lf = open(outfile + ".log", "w")
            p = subprocess.Popen(argv, cwd=ROOT, env=ENV, stdout=lf, stderr=subprocess.STDOUT, start_new_session=True)
            running.append((p, argv, outfile, lf))
        time.sleep(0.02)
        still = []
        for (p, argv, outfile, lf) in running:
            rc = p.poll()
            if rc is None:
                if time.time() > deadline:
                    try:
                        os.killpg(p.pid, 9)  # the monitor may have children of its own
                    except Exception:
                        p.kill()
                    p.wait()
                    lf.close()
                    results.append((outfile, "timeout", ""))
                else:
                    still.append((p, argv, outfile, lf))
            else:
                lf.close()
                tail = open(outfile + ".log").read()[-2000:]
                results.append((outfile, rc, tail))
        running = still
    return results


def merge_reports(files):
    merged = {"counters": {}, "distinct": {}, "samples": {}, "violations": [], "inconclusive": [], "notes": []}
    for f in files:
        if not os.path.exists(f):
            continue
        try:
            d = json.load(open(f))
        except Exception as e:
            merged["notes"].append(f"unreadable report {f}: {e}")
            continue
        for p, cs in d.get("counters", {}).items():
            m = merged["counters"].setdefault(p, {})
            for k, v in cs.items():
                m[k] = m.get(k, 0) + v
        for p, dd in d.get("distinct", {}).items():
            m = merged["distinct"].setdefault(p, {"set": set(), "n_disjoint": 0})
            if dd.get("disjoint"):
                m["n_disjoint"] += dd.get("n", 0)
            else:
                m["set"].update(dd.get("hashes", []))
        for p, ss in d.get("samples", {}).items():
            merged["samples"].setdefault(p, []).extend(ss)
        merged["violations"].extend(d.get("violations", []))
        merged["inconclusive"].extend(d.get("inconclusive", []))
        merged["notes"].extend(d.get("notes", []))
    return merged


def thread_dependence(viols):
    """C14 diagnosis by counterfactual: a violation of a *shared* (global/async) cache seen in a
    history whose calls came from several threads is replayed with every call issued by one
    thread.  If the single-thread replay is clean, the behaviour depends on which thread calls -
    'a value stored by one thread is served to every other one' (C14) - whatever it looked like."""
    done = {}
    for v in viols:
        w = v.get("witness", {})
        parts = v["sig"].split("|")
        if w.get("monitor") != "l2mon" or w.get("actors", 1) < 2 or v.get("property") == "C14" or parts[2] == "thread":
            continue
        if v["sig"] not in done:
            if len(done) >= 12:
                continue
            tmp = os.path.join(OUT, "c14-counterfactual.json")
            json.dump(v, open(tmp, "w"))
            r = subprocess.run([bin_path("l2mon"), "--replay", tmp, "--single-actor", "--out", "/dev/null"], cwd=ROOT, env=ENV, stdout=subprocess.PIPE, stderr=subprocess.STDOUT, text=True)
            done[v["sig"]] = r.returncode
        if done[v["sig"]] == 0:
            v["base_property"] = v["property"]
            parts[0] = "C14"
            parts[4] = parts[4] + "-only-when-calls-come-from-several-threads"
            v["property"] = "C14"
            v["sig"] = "|".join(parts)
            v["what"] += " (the same history with all calls issued by one thread shows no violation)"


def macro_level_only(viols):
    """C19 by differential execution: the same model is compared with the core engines (L1) and
    with the macro-generated functions (L2).  A deviation seen at L2 for a (flavour, policy, kind)
    for which the core engines show none means the generated function does not behave like the
    core cache configured with the attribute values as written."""
    def key(v):
        p = v["sig"].split("|")
        return (p[2], p[3], p[4].split("-after-")[0])
    core = {key(v) for v in viols if v["sig"].split("|")[1] == "L1"}
    for v in viols:
        p = v["sig"].split("|")
        if p[1] == "L2" and v.get("property") != "C19" and key(v) not in core:
            v["also_refutes"] = v["property"]
            p[4] = "macro-level-only:" + p[0] + ":" + p[4]
            p[0] = "C19"
            v["property"] = "C19"
            v["sig"] = "|".join(p)
            v["what"] = "generated function deviates from the core cache configured with the attributes as written (no such deviation at core level): " + v["what"]


HARD_BOUND_KINDS = {"limit-exceeded", "memory-exceeded", "oversized-cached"}


def reattribute(viols):
    """Capacity-bookkeeping violations (C04/C05/C07/C08 kinds) that were only ever observed while the
    cache carried traces of an expiry purge / an invalidation belong to C06 ("the expired entry no
    longer occupies capacity") / C13 ("limits behave as if the removed entries had never been
    stored").  If the same kind also occurs without such traces it stays with its base property."""
    def base_key(v):
        p = v["sig"].split("|")
        return tuple(p[:5])
    untainted = {base_key(v) for v in viols if not v.get("taint")}
    for v in viols:
        if v["sig"].split("|")[4] in HARD_BOUND_KINDS:
            continue  # "never more than limit / max_memory" is C04's / C05's own invariant whatever led to it
        if v.get("taint") and base_key(v) not in untainted and v.get("alt_property"):
            parts = v["sig"].split("|")
            parts[0] = v["alt_property"]
            parts[4] = parts[4] + "-after-" + v["taint"]
            v["base_property"] = v["property"]
            v["property"] = v["alt_property"]
            v["sig"] = "|".join(parts)


# ------------------------------------------------------------------------------------------
# known findings
# ------------------------------------------------------------------------------------------
def load_known():
    p = os.path.join(ROOT, "known_findings.json")
    if not os.path.exists(p):
        return {"known": [], "fixed": []}
    return json.load(open(p))


def match_known(known, sig):
    for k in known.get("known", []):
        if fnmatch.fnmatchcase(sig, k["sig"]):
            return k
    return None


# ------------------------------------------------------------------------------------------
# engines: each returns (list of report files, harness_errors)
# ------------------------------------------------------------------------------------------
def eng_l1(prop, tier, seed):
    cargo_build(["l1"])
    n = JOBS
    cmds = []
    for i in range(n):
        out = os.path.join(OUT, f"{prop}-l1-{i}.json")
        cmds.append(([bin_path("l1mon"), "--out", out, "--seed", str(seed), "--shard", f"{i}/{n}", "--tier", tier, "--focus", prop], out))
    res = run_shards(f"{prop}-l1", cmds, 900 if tier == "quick" else 7200)
    return res


def eng_l2(prop, tier, seed):
    cargo_build(["l2"])
    n = JOBS
    # every l2mon shard runs `rounds` fresh child processes; each child gives every function in
    # focus exactly one history (nothing carries over between histories)
    rounds = int(os.environ.get("VERIF_L2_ROUNDS", "0")) or (3000 if tier == "thorough" else 250)
    cmds = []
    for i in range(n):
        out = os.path.join(OUT, f"{prop}-l2-{i}.json")
        cmds.append(([bin_path("l2mon"), "--out", out, "--seed", str(seed), "--shard", f"{i}/{n}", "--tier", tier, "--focus", prop, "--rounds", str(rounds)], out))
    return run_shards(f"{prop}-l2", cmds, 1200 if tier == "quick" else 14400)


def eng_key(prop, tier, seed):
    cargo_build(["l2"])
    n = JOBS
    cmds = []
    for i in range(n):
        out = os.path.join(OUT, f"{prop}-key-{i}.json")
        cmds.append(([bin_path("keymon"), "--out", out, "--seed", str(seed), "--shard", f"{i}/{n}", "--tier", tier], out))
    return run_shards(f"{prop}-key", cmds, 900 if tier == "quick" else 7200)


def eng_conc(prop, tier, seed):
    cargo_build(["l2"])
    n = JOBS
    cmds = []
    quick = tier == "quick"
    n_serial = int(os.environ.get("VERIF_CONC_SERIAL", "0")) or (500 if quick else 15000)
    n_jitter = int(os.environ.get("VERIF_CONC_JITTER", "0")) or (30 if quick else 1500)
    for i in range(n):
        out = os.path.join(OUT, f"{prop}-conc-serial-{i}.json")
        cmds.append(([bin_path("concmon"), "--out", out, "--seed", str(seed), "--shard", f"{i}/{n}", "--focus", prop, "--mode", "serial", "--scenarios", str(n_serial)], out))
    # jitter runs use real parallelism: fewer processes at a time would be kinder, but the
    # oracle does not depend on timing (a stall without a wait-for cycle is only 'inconclusive')
    for i in range(max(2, n // 4)):
        out = os.path.join(OUT, f"{prop}-conc-jitter-{i}.json")
        cmds.append(([bin_path("concmon"), "--out", out, "--seed", str(seed), "--shard", f"{i}/{max(2, n // 4)}", "--focus", prop, "--mode", "jitter", "--scenarios", str(n_jitter)], out))
    return run_shards(f"{prop}-conc", cmds, 1500 if quick else 14400)


def eng_bad(prop, tier, seed):
    """Compile oracle (C19): every invalid attribute list must fail `cargo check`, the control bin
    with the corrected twins must pass; the generated corpus (valid lists) must build."""
    os.makedirs(OUT, exist_ok=True)
    out = os.path.join(OUT, f"{prop}-bad-0.json")
    t0 = time.time()
    rep = {"counters": {"C19": {}, "COMPILE": {}}, "distinct": {}, "samples": {"C19": []}, "violations": [], "inconclusive": [], "notes": []}
    cnt = rep["counters"]["C19"]
    # 1. the corpus of valid attribute lists must compile
    r = subprocess.run(["cargo", "build", "--release", "--offline", "-p", "corpus", "--message-format=json"], cwd=HARNESS, env=ENV, stdout=subprocess.PIPE, stderr=subprocess.PIPE, text=True)
    if r.returncode != 0:
        errs = []
        in_repo_or_corpus = False
        for l in r.stdout.splitlines():
            try:
                m = json.loads(l)
            except Exception:
                continue
            if m.get("reason") == "compiler-message" and m["message"]["level"] == "error":
                tgt = m.get("target", {}).get("name", "")
                errs.append({"target": tgt, "message": m["message"]["message"][:300], "span": [(s["file_name"], s["line_start"]) for s in m["message"].get("spans", [])[:2]]})
                if tgt == "corpus":
                    in_repo_or_corpus = True
        if in_repo_or_corpus:
            rep["violations"].append({"property": "C19", "sig": "C19|COMPILE|corpus|-|valid-attribute-list-does-not-compile|", "what": f"the generated corpus of valid attribute lists no longer compiles: {errs[0]['message'] if errs else ''}", "witness": {"monitor": "compile-oracle", "errors": errs[:8]}})
        else:
            log(r.stderr[-3000:])
            log("HARNESS-ERROR: build of the repository crates failed (not a property verdict)")
            sys.exit(2)
    cnt["corpus_functions_compiled"] = sum(1 for l in open(os.path.join(HARNESS, "corpus", "src", "gen.rs")) if l.lstrip().startswith("FnDesc {")) if r.returncode == 0 else 0
    # 2. invalid lists / controls / borderline
    r = subprocess.run(["cargo", "check", "--offline", "-p", "badcorpus", "--bins", "--keep-going", "--message-format=json"], cwd=HARNESS, env=ENV, stdout=subprocess.PIPE, stderr=subprocess.PIPE, text=True)
    ok, errs = set(), {}
    for l in r.stdout.splitlines():
        try:
            m = json.loads(l)
        except Exception:
            continue
        if m.get("reason") == "compiler-artifact" and "bin" in m["target"]["kind"]:
            ok.add(m["target"]["name"])
        if m.get("reason") == "compiler-message" and m["message"]["level"] == "error":
            errs.setdefault(m["target"]["name"], []).append(m["message"]["message"][:200])
    cases = json.load(open(os.path.join(HARNESS, "badcorpus", "cases.json")))
    seen_any = bool(ok) or bool(errs)
    if not seen_any:
        log(r.stderr[-3000:])
        log("HARNESS-ERROR: cargo check of badcorpus produced no results")
        sys.exit(2)
    dist = set()
    for c in cases:
        compiled = c["bin"] in ok
        rejected = c["bin"] in errs
        if c["kind"] == "invalid":
            cnt["invalid_lists_checked"] = cnt.get("invalid_lists_checked", 0) + 1
            dist.add(c["bin"])
            if compiled:
                rep["violations"].append({"property": "C19", "sig": f"C19|COMPILE|{c['macro']}|-|invalid-attribute-list-accepted|{c['attrs']}", "what": f"#[{c['macro']}({c['attrs']})] compiles ({c['why']}); it must be rejected at compile time", "witness": {"monitor": "compile-oracle", "case": c}})
            elif rejected:
                cnt["invalid_lists_rejected"] = cnt.get("invalid_lists_rejected", 0) + 1
                if len(rep["samples"]["C19"]) < 4:
                    rep["samples"]["C19"].append({"attrs": f"#[{c['macro']}({c['attrs']})]", "verdict": "rejected: " + errs[c["bin"]][0], "control": f"#[{c['macro']}({c['corrected']})] compiles"})
        else:
            cnt["borderline_lists_reported"] = cnt.get("borderline_lists_reported", 0) + 1
            rep["notes"].append(f"borderline (no verdict): #[{c['macro']}({c['attrs']})] " + ("compiles" if compiled else "is rejected"))
    if "controls" not in ok:
        rep["violations"].append({"property": "C19", "sig": "C19|COMPILE|controls|-|valid-attribute-list-does-not-compile|", "what": "the control bin (corrected twins of the invalid lists) does not compile: " + "; ".join(errs.get("controls", [])[:3]), "witness": {"monitor": "compile-oracle", "errors": errs.get("controls", [])[:8]}})
    else:
        cnt["control_lists_compiled"] = sum(1 for c in cases if c["kind"] == "invalid")
    rep["counters"]["COMPILE"]["programs"] = len(cases) + 1
    rep["distinct"]["C19"] = {"n": len(dist), "hashes": sorted(dist)}
    rep["notes"].append(f"compile oracle wall {time.time()-t0:.1f}s")
    json.dump(rep, open(out, "w"))
    return [(out, 0, "")]


MIRI_PROGS = {
    # property -> (program, kind of seeds, default property of an assertion failure)
    "C16": ("miri_seq", "argv"),
    "C17": ("miri_conc", "many"),
    "C18": ("miri_conc", "many"),
    "C20": ("miri_poll", "many"),
}


def eng_miri(prop, tier, seed):
    """Secondary monitor, thorough tier only: tiny programs under Miri (UB, data races, leaks and
    Miri's own deadlock detection under its randomised preemptive scheduler)."""
    out = os.path.join(OUT, f"{prop}-miri-0.json")
    rep = {"counters": {prop: {}, "MIRI": {}}, "distinct": {}, "samples": {}, "violations": [], "inconclusive": [], "notes": []}
    if tier != "thorough" and not os.environ.get("VERIF_MIRI"):
        json.dump(rep, open(out, "w"))
        return [(out, 0, "")]
    prog, kind = MIRI_PROGS[prop]
    env = dict(ENV, CARGO_TARGET_DIR=os.path.join(TARGET, "miri"))
    n = int(os.environ.get("VERIF_MIRI_SEEDS", "0")) or (6 if kind == "argv" else 48)
    runs = []
    if kind == "argv":
        for i in range(n):
            runs.append((["cargo", "+nightly", "miri", "run", "--offline", "-p", "miriprogs", "--bin", prog, "--", str(seed * 100 + i)], "-Zmiri-disable-isolation", f"seed {seed*100+i}"))
    else:
        lo = (seed % 1000) * 1000
        runs.append((["cargo", "+nightly", "miri", "run", "--offline", "-p", "miriprogs", "--bin", prog], f"-Zmiri-disable-isolation -Zmiri-many-seeds={lo}..{lo+n}", f"seeds {lo}..{lo+n}"))
    ok_runs = 0
    t0 = time.time()
    for argv, flags, what in runs:
        try:
            r = subprocess.run(argv, cwd=HARNESS, env=dict(env, MIRIFLAGS=flags), stdout=subprocess.PIPE, stderr=subprocess.STDOUT, text=True, timeout=3600)
        except subprocess.TimeoutExpired:
            rep["inconclusive"].append({"property": prop, "why": f"Miri run {prog} {what} exceeded its watchdog"})
            continue
        okc = r.stdout.count("MIRI-OK")
        ok_runs += okc
        if r.returncode != 0:
            txt = r.stdout
            if "could not compile" in txt and "error[" in txt:
                log(txt[-3000:])
                log("HARNESS-ERROR: Miri programs do not build (not a property verdict)")
                sys.exit(2)
            if "deadlock" in txt:
                kindv, p2 = "miri-deadlock", "C17"
            elif "Data race detected" in txt:
                kindv, p2 = "miri-data-race", "C18"
            elif "Undefined Behavior" in txt:
                kindv, p2 = "miri-undefined-behaviour", prop
            elif "panicked" in txt:
                kindv, p2 = "miri-program-assertion-failed", prop
            elif "memory leaked" in txt:
                kindv, p2 = "miri-leak", prop
            else:
                rep["inconclusive"].append({"property": prop, "why": f"Miri run {prog} {what} failed without a recognised diagnosis: {txt[-300:]}"})
                continue
            tail = "\n".join([l for l in txt.splitlines() if l.strip()][-40:])
            rep["violations"].append({"property": p2 if p2 == prop else p2, "sig": f"{p2}|MIRI|{prog}|-|{kindv}|", "what": f"Miri: {kindv} in {prog} ({what})", "witness": {"monitor": "miri", "program": prog, "flags": flags, "argv": argv, "output_tail": tail}})
    rep["counters"]["MIRI"]["programs"] = ok_runs
    rep["counters"][prop]["miri_executions_clean"] = ok_runs
    rep["distinct"][prop] = {"n": ok_runs, "hashes": [f"miri-{prog}-{i}" for i in range(ok_runs)]}
    rep["notes"].append(f"miri {prog}: {ok_runs} clean executions, wall {time.time()-t0:.0f}s")
    json.dump(rep, open(out, "w"))
    return [(out, 0, "")]


def eng_tsan(prop, tier, seed):
    """Secondary monitor, thorough tier only: the jitter-mode concurrency workload rebuilt with
    ThreadSanitizer (-Zsanitizer=thread -Zbuild-std); every data-race report is a violation."""
    out = os.path.join(OUT, f"{prop}-tsan-0.json")
    rep = {"counters": {prop: {}, "TSAN": {}}, "distinct": {}, "samples": {}, "violations": [], "inconclusive": [], "notes": []}
    if tier != "thorough" and not os.environ.get("VERIF_TSAN"):
        json.dump(rep, open(out, "w"))
        return [(out, 0, "")]
    tdir = os.path.join(TARGET, "tsan")
    env = dict(ENV, CARGO_TARGET_DIR=tdir, RUSTFLAGS="-Zsanitizer=thread")
    t0 = time.time()
    r = subprocess.run(["cargo", "+nightly", "build", "-Zbuild-std", "--target", "x86_64-unknown-linux-gnu", "--release", "--offline", "-p", "l2", "--bin", "concmon", "--features", "noclock"],
                       cwd=HARNESS, env=env, stdout=subprocess.PIPE, stderr=subprocess.STDOUT, text=True)
    if r.returncode != 0:
        log(r.stdout[-3000:])
        rep["inconclusive"].append({"property": prop, "why": "ThreadSanitizer build failed"})
        json.dump(rep, open(out, "w"))
        return [(out, 0, "")]
    logdir = os.path.join(OUT, f"tsan-{prop}")
    shutil.rmtree(logdir, ignore_errors=True)
    os.makedirs(logdir)
    n = int(os.environ.get("VERIF_TSAN_SCENARIOS", "0")) or 400
    exe = os.path.join(tdir, "x86_64-unknown-linux-gnu", "release", "concmon")
    cmds = []
    shards = 8
    for i in range(shards):
        o = os.path.join(OUT, f"{prop}-tsanrun-{i}.json")
        cmds.append((["env", f"TSAN_OPTIONS=halt_on_error=0 log_path={logdir}/log exitcode=0", exe, "--out", o, "--seed", str(seed), "--shard", f"{i}/{shards}", "--focus", prop, "--mode", "jitter", "--scenarios", str(n // shards)], o))
    res = run_shards(f"{prop}-tsan", cmds, 7200)
    races = {}
    for f in glob.glob(os.path.join(logdir, "log*")):
        txt = open(f, errors="replace").read()
        for block in txt.split("==================")[1:]:
            if "WARNING: ThreadSanitizer: data race" not in block:
                continue
            frames = [l.strip() for l in block.splitlines() if l.strip().startswith("#")]
            repo_frames = [l for l in frames if "cachelito" in l and "/verif/" not in l]
            key = (repo_frames[0].split(" ", 2)[-1] if repo_frames else "no-cachelito-frame")[:160]
            races.setdefault(key, block[:2500])
    for key, block in races.items():
        if key == "no-cachelito-frame":
            rep["notes"].append("ThreadSanitizer report without a cachelito frame (harness or dependency): not a verdict")
            continue
        rep["violations"].append({"property": prop, "sig": f"{prop}|TSAN|concmon|-|data-race|{key}", "what": f"ThreadSanitizer: data race, first cachelito frame {key}", "witness": {"monitor": "tsan", "report": block}})
    merged = merge_reports([o for (_, o) in cmds])
    sched = merged["counters"].get("CONC", {}).get("schedules", 0)
    rep["counters"]["TSAN"]["schedules"] = sched
    rep["counters"][prop]["tsan_schedules_without_race_report"] = sched if not races else 0
    rep["violations"].extend(merged["violations"])
    rep["notes"].append(f"tsan: {sched} jitter schedules, {len(races)} distinct race reports, wall {time.time()-t0:.0f}s")
    json.dump(rep, open(out, "w"))
    return [(out, 0, "")]


ENGINES = {"tsan": eng_tsan, "l1": eng_l1, "l2": eng_l2, "key": eng_key, "conc": eng_conc, "bad": eng_bad, "miri": eng_miri}

# property -> (engines, level, rule text, assumptions)
PROPS = {}


def prop(pid, engines, level, rule, assumptions, primary_counter):
    PROPS[pid] = dict(engines=engines, level=level, rule=rule, assumptions=assumptions, primary=primary_counter)


COMMON_ASSUME = [
    "the specification model in harness/vmon/src/model.rs transcribes the property statements correctly",
    "the virtual clock (clock_gettime defined in the monitor binary) is the only time source cachelito reads",
    "histories are sampled (seeded PRNG), not exhausted; the result speaks only for the executions observed",
]

REENT_RULE = ("RE-ENTRANCY (sequential monitor l2mon): in some calls the body, if it runs, calls another decorated function from inside - mostly the same function with other arguments, as a recursive memoised "
              "function does - and/or panics like failing user code; the steps (outer lookup, complete inner call, outer store or none) are checked against the model in the order in which they really happen, "
              "a blocking acquisition of a lock the calling thread already holds (hooked lock_api) is reported as a call that can never return (C17), a panic of the nested call under C16, and no lock may stay held after a body panicked. ")
CONC_RULE = ("CONCURRENCY: scenarios of 1-3 corpus functions (real macro expansions, sync global and async; thread scope for C14) and 2-3 threads (serial scheduler) or 2-8 threads (free-running with seeded "
             "delays injected at lock attempt/release events) running programs of cached calls, invalidate_with / invalidate_all_with, tag/event/dependency/name invalidations, stats queries and clock steps. "
             "The serial scheduler passes a baton at every lock attempt/release (hooked lock_api: parking_lot and DashMap shard locks), body entry and API-call boundary, with switch probabilities 1.0/0.4/0.15/0.06; "
             "a deadlock is 'some thread unfinished and none enabled' (no timing involved). At quiescence: values, limit/max_memory bounds, unknown keys, eviction/expiry/invalidation probes, a sequential probe history, "
             "hit+miss conservation, and the execution history are checked. Distinct = distinct (function set, thread programs, observed interleaving: the serial scheduler's sequence of thread choices, or in free-running mode the order in which the threads' lock acquisitions reached the monitor). ")

L1_RULE = ("generated lookup/store/advance histories (40-200 ops + fill probe, re-stores of live keys with new values, time steps aimed at ttl-1ns / ttl / ttl+1ns) "
           "for every configuration in focus out of the product flavour(3) x policy(6) x limit{none,1..4} x ttl{none,1..3} x max_memory{none,120,200,400} x frequency_weight(6, TLRU), plus 420 configurations with ttls of 2^32..u64::MAX seconds (never expire), "
           "run on the real engines (GlobalCache / ThreadLocalCache / AsyncGlobalCache) with harness-owned storage and a virtual clock; after every operation the result, the whole store "
           "(keys, values) and the hit/miss counters are compared with the specification model (belief monitor). ")

EXTRAS_RULE = ("EXTRAS: at the start of every l2mon process 24 functions outside the descriptor table (12 that call themselves by name from their own body, 6 that return nothing, 6 that return Option and do return None for a third of their arguments) are called 40 times each: value = the undecorated recursion's, every argument of an unbounded cache ran its body exactly once however it was reached, a repeat of the previous call runs nothing (FIFO/LRU), listed entries <= limit, no panic, no thread blocking on itself. ")
L2_RULE = ("MACRO LEVEL: generated multi-cache histories (30-120 operations + closing sweep) over groups of 1-6 functions of a generated corpus of 554 #[cache]/#[cache_async] functions "
           "(attribute presence/values x 10 argument shapes x free fn/&self/&mut self/self x 10 return kinds), calls issued from 1-4 worker threads (serialised), bodies scripted by the harness "
           "(fresh value per execution or deterministic, Ok/Err, payload size, cache_if and invalidate_on verdicts), virtual clock, conditional and group invalidations, stats resets; after every "
           "operation: returned value, body executed?, predicate/check invocations, key listing (never-matching invalidate_with predicate) and stats_registry are compared with the wrapper model. ")

prop("C01", ["l1", "l2", "key", "conc"], "exploration",
     CONC_RULE + "Under concurrency every execution returns a unique value (invalidate_on verdicts scripted per call): a call must not be served a value once a later execution for the same key has stored another one and returned. " + L1_RULE + L2_RULE + "KEY LEVEL (shared with C02): adversarial argument pairs on 50 signature shapes; a call served from another tuple's entry is reported here as 'a value stored for other arguments'. Non-trivial = a lookup of a stored key (value must be the last one stored for that key); distinct = distinct (configuration, key, hit-count class, store size).",
     COMMON_ASSUME, ("C01", "lookups_of_stored_key"))
prop("C05", ["l1", "l2", "conc"], "exploration",
     L1_RULE + L2_RULE + CONC_RULE + "Big-memory probe (l2mon): four functions with max_memory = 64KB hold a hundred ~600-byte residents, then receive 50-60 KB vectors of 1100-1400 unevenly sized strings, so that one store displaces dozens of entries (more than 64); after every call the footprints of the listed entries, computed by the harness from the arguments, must sum to at most 65536. " + "Under concurrency (functions with max_memory only, plain stores): at quiescence the cached bytes plus the largest value that was stored and is gone must exceed max_memory (nothing is evicted while everything fits, under every serialisation). Values include one whose estimator reports 0 bytes. Values: String, Vec<u8>, Vec<String>, Option<String>, Result<String,String>, (String,Vec<u32>), Box<String>, a user type with its own estimator; sizes around M/3, M/2, M-1, M, M+1, >M, with slack capacity. Sizes are measured by an independent footprint oracle. Non-trivial = a store under memory pressure; distinct = distinct (configuration, residents, order shape, size class).",
     COMMON_ASSUME + ["the footprint oracle (vhooks::Footprint) is the intended meaning of 'inline size plus owned heap capacity'"], ("C05", "stores_under_memory_pressure"))
prop("C06", ["l1", "l2"], "exploration",
     L1_RULE + L2_RULE + "Non-trivial = a lookup of an entry while a ttl is configured; distinct = distinct (configuration, quarter-second age bucket, store size, exactly-on-a-second?).",
     COMMON_ASSUME, ("C06", "expired_lookups"))
prop("C07", ["l1", "l2", "conc"], "exploration",
     L1_RULE + L2_RULE + CONC_RULE + "After a concurrent phase the order in which old entries leave under fresh stores must not contradict the completed calls (LRU: last uses; FIFO: last stores). " + "Non-trivial = an overflowing store under FIFO/LRU whose victim set is compared with 'oldest stored' / 'least recently used'; distinct = distinct (configuration, residents, recency/insertion order shape, size class).",
     COMMON_ASSUME, ("C07", "victims_checked_limit_pressure"))
prop("C08", ["l1", "l2", "conc"], "exploration",
     L1_RULE + L2_RULE + CONC_RULE + "After a concurrent phase an entry that was certainly served from the cache must not be evicted while a certainly never-hit entry (sync caches: the newcomer) is available; a free-running hammer (8 threads, 160 000 overlapping hits of one resident of an async LFU cache against 140 000 hits of the other) checks that the entry with the most successful lookups stays. L1 adds hot-key histories whose hit counts pass 2^8 and 2^16. " + "Non-trivial = an overflowing store under LFU/ARC/TLRU whose victim must be a score minimiser over the residents or over residents+newcomer; distinct = distinct (configuration, order shape, hit-count vector).",
     COMMON_ASSUME + ["sync engines always hold a zero-score newcomer, so for them the check only establishes that a zero-score entry was evicted (stated in DESIGN.md C08)"], ("C08", "victims_checked_with_unique_resident_minimiser"))
prop("C16", ["l1", "l2", "conc", "miri"], "exploration",
     L1_RULE + "Every operation runs under catch_unwind in a build with overflow checks and debug assertions. Non-trivial/distinct = configurations of the full product visited (each with overflow-heavy histories). " + REENT_RULE,
     COMMON_ASSUME, ("C16", "ops_under_catch_unwind"))
prop("C02", ["key", "l2"], "exploration",
     "KEY LEVEL: 63 signature shapes (1-5 arguments over integers, floats, bool, char, String, &str, tuples, Option, nested Option, Vec, slices, Debug-derived struct and enum, &self methods with string-bearing receivers), each as #[cache] and #[cache_async], bodies return a fresh serial. "
     "Pairs of argument tuples a != b (structural/bitwise inequality, NaN excluded) are drawn from an adversarial alphabet (| \" \\ ' , ( ) [ ] space newline NUL DEL, the words Some/None, quote-separator-quote sequences), by single-position mutation, and by boundary shifting "
     "(render two neighbouring arguments with separators '', '|', ',', ' ', '\"|\"', ', ', move the boundary, re-parse); f(a); f(b); f(a) must execute twice and serve a its own serial; every 32 pairs the number of listed key strings must equal the number of distinct tuples stored. "
     "Strings: one in ten is several hundred bytes long and is mutated in its last characters; hand-written shapes cover parameter names a macro might use itself, parameters bound through patterns, an argument whose CacheableKey calls another cached function, and item forms (underscore-prefixed parameter names, explicit lifetimes, generics with bounds and where-clause, a method of a generic type, thirteen arguments, attributed items in a nested module). Non-trivial/distinct = distinct (function, a, b) pairs. " + L2_RULE + "There, a learned slot->key-string map must stay injective.",
     COMMON_ASSUME + ["'differ' means structural inequality of the argument values (0.0 and -0.0 differ; NaN is excluded)"], ("C02", "pairs"))
prop("C17", ["conc", "l2", "miri"], "exploration",
     CONC_RULE + "Non-trivial = a schedule that ran to completion or to a diagnosed deadlock. " + REENT_RULE + L2_RULE,
     COMMON_ASSUME + ["writer preference is modelled for parking_lot's RwLock only (not for DashMap's shard locks); first-use registration (Once/Lazy) of warmed-up functions happens before the scheduled phase, 'cold' functions register inside it",
                      "schedules are sampled (random walk with bounded preemption), not enumerated",
                      "a single thread waiting for itself is observed only on locks that go through lock_api (parking_lot, DashMap); a std::sync lock held across a body would hang the monitor process, which its watchdog reports as inconclusive"], ("C17", "schedules_completed_without_deadlock"))
prop("C18", ["conc", "miri", "tsan"], "exploration",
     CONC_RULE + "Non-trivial = a quiescent state reached after a concurrent phase and probed.",
     COMMON_ASSUME + ["queue entries whose key is no longer stored are tolerated, as the property says; a stored key the queue does not know shows up in the eviction probe (FIFO/LRU) or as an exceeded bound"], ("C18", "quiescent_states_checked"))
prop("C03", ["l2", "conc"], "exploration",
     CONC_RULE + L2_RULE + EXTRAS_RULE + "Focus: functions with no limit/ttl/max_memory/cache_if/invalidate_on. Non-trivial = a repeat call for an argument tuple already stored (must not run the body; once per thread for scope=thread); at the end of every history without invalidations the execution count per distinct tuple must be exactly 1. Distinct = distinct (function, tuple, stored-before?, thread).",
     COMMON_ASSUME, ("C03", "repeat_calls_on_unbounded_caches"))
prop("C09", ["l2", "conc"], "exploration",
     CONC_RULE + "For Result functions on unbounded, never-invalidated caches: no body execution may be invoked after an execution that returned Ok has returned (Err outcomes scripted per call, also concurrently). " + L2_RULE + "Six Result functions stamped out by a macro_rules! template (return type passed as a $ret:ty fragment) are probed with the direct rule 'a failing call runs the body'. Focus: functions returning Result / std::result::Result without cache_if (all scopes, policies, limits, with and without max_memory). Outcomes follow an arbitrary Ok/Err script per call. Non-trivial = a scripted Err outcome; distinct = distinct (function, tuple, cached?, outcome, previous non-store reason).",
     COMMON_ASSUME, ("C09", "err_outcomes_scripted"))
prop("C10", ["l2"], "exploration",
     L2_RULE + "Focus: functions with cache_if. Verdicts follow an arbitrary accept/reject script; every invocation is logged with key and value digest. Non-trivial = a rejecting verdict; distinct = distinct (function, tuple, cached?, verdict, outcome).",
     COMMON_ASSUME, ("C10", "rejecting_verdicts_scripted"))
prop("C11", ["l2"], "exploration",
     L2_RULE + "Focus: functions with invalidate_on; the check's verdict is scripted per call (changes between calls); bodies return a fresh value per execution so a refresh is visible. Non-trivial = a 'stale' verdict on a cached entry; distinct = distinct (function, tuple, verdict, cache size).",
     COMMON_ASSUME, ("C11", "stale_verdicts_on_cached_entries"))
prop("C12", ["l2", "conc"], "exploration",
     CONC_RULE + "Under concurrency: once a matching group invalidation has returned, no call may be served an entry that certainly dates from before it (the key was seen by a listing probe that finished before the invalidation began and no execution for it was invoked later, or every execution had already returned). " + L2_RULE + "Focus: tag/event/dependency/name requests (including names nothing declares, names declared in another table, names of unused or metadata-less caches) in many short-lived processes, so that 'used at least once' varies; expected matches are computed from the generator's metadata table over the whole corpus. Non-trivial = a request; distinct = distinct (kind, name, set of matching used caches).",
     COMMON_ASSUME, ("C12", "group_invalidation_requests"))
prop("C13", ["l2", "conc"], "exploration",
     CONC_RULE + "Group requests also run over three dependency chains in which a cache declares another cache's name as its dependency (kept in one group): a request reaches only the caches that declare the requested label themselves. " + "Under concurrency: on caches that cannot evict, an entry whose key no conditional invalidation of the scenario selects must stay cached once its storing call has returned (no later execution). " + L2_RULE + "Focus: invalidate_with / invalidate_all_with with predicates = arbitrary subsets of the stored keys (per cache), followed by further history so that leftover bookkeeping shows as a wrong later eviction. Non-trivial = a conditional invalidation; distinct = distinct (function, entries before, subset).",
     COMMON_ASSUME, ("C13", "conditional_invalidations"))
prop("C14", ["l2", "conc"], "exploration",
     CONC_RULE + L2_RULE + "Focus: every function called from 2-4 worker threads in random serial orders; scope=thread functions have one model per thread, global/async ones a single shared model. Non-trivial = a call on a multi-thread history; distinct = distinct (function, tuple, calling thread, thread that stored it, cached?).",
     COMMON_ASSUME + ["free-running thread interleavings are covered by the concurrency monitor, not here"], ("C14", "thread_scope_calls_multi_actor"))
prop("C15", ["l2", "conc"], "exploration",
     CONC_RULE + L2_RULE + "Focus: global and async functions (custom names included): stats_registry::get(name) must equal the model's hit/miss counters after every call, invalidation and reset; a reset of one name must leave the others unchanged. Under concurrency every statistics snapshot read by a thread program must lie within what the calls invoked / returned around it allow (free-running mode adds a statistics hammer: several threads hitting one entry while another reads); every process first registers two caches under one name. Non-trivial = a comparison; distinct = distinct (function, hits, misses) triples.",
     COMMON_ASSUME, ("C15", "stats_comparisons"))
prop("C19", ["bad", "l1", "l2"], "translation_validation",
     "Translation validation by differential execution: (a) the generated corpus of 554 functions (attribute presence/values x 10 argument shapes x free fn/&self/&mut self/self x 10 return kinds x both macros) must compile; "
     "(b) every corpus function is driven by boundary-targeted histories (limit N probed with N and N+1 keys, ttl T at T-1ns/T, max_memory with totals between the decimal and the 1024-based reading of KB, policy-separating histories, "
     "scope with several threads, name via stats_registry, tags/events/dependencies via requests, scripted cache_if / invalidate_on) and compared with the core-level model configured from the *generator's* record of the attributes; "
     "(c) 66 invalid attribute lists (unknown names, typos, invalid policy/scope/limit/ttl/max_memory) must fail cargo check while the corrected twin of each compiles; borderline lists are reported without verdict. "
     + L2_RULE + "programs = corpus functions exercised + compile cases; distinct = distinct (function, cached?, cache size, second) observations plus compile cases.",
     COMMON_ASSUME + ["'behaves like the corresponding core cache' is checked against the same model the core engines are checked against at L1"], ("C19", "invalid_lists_checked"))
prop("C20", ["l2", "miri"], "exploration",
     L2_RULE + "Focus: #[cache_async] functions whose bodies contain 1-3 await points (gates the harness opens one at a time). The generated future is polled by hand: at every Pending the polling thread's stack of held locks "
     "(hooked lock_api: parking_lot and DashMap shard locks) must be empty and the cache listing / statistics must equal a model in which the call has only performed its lookup; while it is suspended other calls (same and different "
     "arguments, on the same and on other threads), invalidations and stats operations run to completion; the call is then resumed (must store normally: listing, stats, predicate consulted once) or dropped (cache and statistics unchanged). "
     "Non-trivial = a suspension observed; distinct = distinct (function, await point index, resume/drop/pending, interleaved operations class).",
     COMMON_ASSUME + ["an operation that could not complete while a call is suspended would show as a lock held at Pending (checked before anything else runs) - a hang itself would only trip the watchdog (inconclusive)"], ("C20", "suspensions_observed"))
prop("C04", ["l1", "l2"], "exploration",
     L1_RULE + L2_RULE + "Non-trivial = a store that overflows the entry limit; distinct = distinct (configuration, number of residents, replacing?, recency/insertion order shape, size class) tuples among those. At macro level the histories include conditional and group invalidations and expiry before the overflows.",
     COMMON_ASSUME, ("C04", "overflowing_stores"))


# ------------------------------------------------------------------------------------------
def write_evidence(pid, tier, seed, spec, merged, wall, n_viol):
    os.makedirs(EVID, exist_ok=True)
    counters = merged["counters"]
    pc = dict(counters.get(pid, {}))
    dist = merged["distinct"].get(pid, {"set": set(), "n_disjoint": 0})
    evaluations = 0
    for grp_name, grp in counters.items():
        for k, v in grp.items():
            if k in ("lookups", "stores", "calls", "scenarios", "schedules", "pairs", "programs", "polls") and grp_name in ("L1", "L2", "CONC", "KEY", "C02", "POLL", "C19"):
                evaluations += v
    samples = merged["samples"].get(pid, [])[:6]
    cov = {
        "evaluations": int(evaluations),
        "distinct_nontrivial": len(dist["set"]) + dist["n_disjoint"],
        "rule": spec["rule"],
        "samples": samples,
        "counters": {k: v for k, v in counters.items() if k == pid or not k.startswith("C")},
        "inconclusive_runs": len(merged["inconclusive"]),
        "other_distinct_counts": {k: len(v["set"]) + v["n_disjoint"] for k, v in merged["distinct"].items() if not k.startswith("C")},
        "notes": merged["notes"][:40],
    }
    if spec["level"] == "translation_validation":
        cov["programs"] = int(counters.get("C19", {}).get("corpus_functions_compiled", 0) + counters.get("COMPILE", {}).get("programs", 0))
        cov["disagreements_checked"] = int(counters.get("L2", {}).get("calls", 0) + counters.get("COMPILE", {}).get("programs", 0))
    ev = {
        "property_id": pid,
        "tier": tier,
        "seed": int(seed),
        "level": spec["level"],
        "coverage": cov,
        "assumptions": spec["assumptions"],
        "wall_s": round(wall, 2),
        "violations": int(n_viol),
    }
    json.dump(ev, open(os.path.join(EVID, f"{pid}.json"), "w"), indent=1, default=str)


PROP_TITLES = {}


def write_manifest():
    """Regenerates MANIFEST.json from the PROPS table (so that it can never drift from run.py)."""
    props = [json.loads(l) for l in open(os.path.join(ROOT, "properties.jsonl"))]
    checks, na = [], []
    for pr in props:
        pid = pr["id"]
        if pid in PROPS:
            s = PROPS[pid]
            checks.append({
                "property_id": pid,
                "quick_cmd": f"./run.py quick {pid}",
                "thorough_cmd": f"./run.py thorough {pid}",
                "evidence_file": f"/verif/evidence/{pid}.json",
                "replay_cmd_template": "./run.py replay {path}",
                "engine": "+".join(s["engines"]),
                "level_claimed": {"category": s["level"], "text": s.get("level_text", LEVEL_TEXT), "design_ref": f"DESIGN.md section 5, {pid}"},
                "level_note": s.get("level_note", LEVEL_NOTE),
                "technique": s.get("technique", TECHNIQUE.get(pid, "runtime monitoring: belief monitor over a specification model, observing the real code on generated histories (virtual clock)")),
            })
        else:
            na.append({"property_id": pid, "reason": NOT_CLAIMED.get(pid, "monitor for this property is still under construction in this commit (see DESIGN.md section 5); it is applicable to the technique")})
    man = {
        "version": 1,
        "setup_cmd": "./setup.sh",
        "hooks": {
            "guard": "none",
            "enable": "no source hooks in /repo: observation uses harness-owned cache storage, the public API, bodies of generated functions, a virtual clock defined in the monitor binaries, and a hooked copy of lock_api substituted with [patch.crates-io] in /verif/harness only",
            "baseline_off_cmd": "cd /repo && cargo nextest run --workspace --no-fail-fast --test-threads 8 --offline || cargo test --workspace --no-fail-fast --offline",
            "source_commits": [],
            "add_only": True,
        },
        "engines": [
            {"name": n, "path": pth, "serves_properties": [p for p in PROPS if n in PROPS[p]["engines"]], "kind_free_text": txt}
            for (n, pth, txt) in [
                ("l1", "harness/l1", "l1mon: sequential monitor at core level - real engines with harness-owned storage on a virtual clock vs the specification model (belief monitor)"),
                ("l2", "harness/l2 (bin l2mon) + harness/corpus", "l2mon: sequential monitor at macro level over a generated corpus of #[cache]/#[cache_async] functions; scripted bodies, predicates and checks; key listing; stats; hand-polled futures"),
                ("key", "harness/l2 (bin keymon)", "keymon: adversarial argument pairs, fresh serial per execution, on 50 signature shapes x 2 macros"),
                ("conc", "harness/l2 (bin concmon) + harness/vmon/src/lockmon.rs + vendor/lock_api", "concmon: serial randomised scheduler and free-running jitter driven from a hooked lock_api; deadlock = no enabled thread / wait-for cycle; quiescence probes; history checks"),
                ("bad", "harness/badcorpus", "compile oracle: invalid attribute lists must fail cargo check, corrected twins must pass, the corpus must build"),
                ("miri", "harness/miriprogs", "thorough tier: three small programs under Miri with many scheduler seeds"),
                ("tsan", "harness/l2 (bin concmon, feature noclock)", "thorough tier: jitter workload rebuilt with ThreadSanitizer"),
            ]
        ],
        "checks": checks,
        "not_applicable": na,
        "notes": "All checks: ./run.py <quick|thorough> <Cxx>; VERIF_SEED seeds every generator. Exit 2 / INCONCLUSIVE is a tool error or missed coverage floor, never a verdict.",
    }
    json.dump(man, open(os.path.join(ROOT, "MANIFEST.json"), "w"), indent=1)
    print("wrote MANIFEST.json:", len(checks), "checks,", len(na), "not claimed")


TECHNIQUE = {
    "C02": "runtime monitoring: collision oracle (fresh serial per execution) over adversarial argument pairs; learned key map must stay injective",
    "C03": "runtime monitoring: execution-count oracle on sequential histories; offline history checker (no execution after a storing call returned) over recorded concurrent call/return events",
    "C09": "runtime monitoring: scripted Ok/Err bodies vs wrapper model; offline history checker under the serial scheduler",
    "C12": "runtime monitoring: registry model over generated metadata in many short-lived processes; unique-value history rule under the serial scheduler",
    "C14": "runtime monitoring: per-thread belief monitors; shared-cache history checker; single-thread counterfactual replay",
    "C15": "runtime monitoring: exact counter comparison after every operation; conservation law at quiescence after concurrent phases",
    "C17": "runtime monitoring: serial randomised scheduler on a hooked lock_api (deadlock = no enabled thread) + free-running jitter with wait-for-cycle diagnosis; sequential monitor with re-entrant bodies (a thread about to block on a lock it holds is reported by the lock hook); Miri many-seeds in the thorough tier",
    "C18": "runtime monitoring: concurrent phases under the serial scheduler / jitter, then value checks, quiescence bounds and eviction/expiry/invalidation probes; Miri and ThreadSanitizer in the thorough tier",
    "C19": "translation validation by differential execution: generated corpus vs model configured from the generator's record (L2) against the same model at core level (L1); compile oracle for invalid attribute lists",
    "C20": "runtime monitoring: hand-polled futures; lock-held-at-Pending check from the hooked lock_api; model of a call that has only performed its lookup; Miri in the thorough tier",
}

LEVEL_TEXT = ("Exploration: an oracle observes executions of the real code under generated workloads; the property held on every execution observed "
              "(counts in the evidence file). Universality over inputs/histories/schedules is sampled, not proved - the right level for behavioural "
              "properties of a library with three engines and a macro front-end, where the deciding step must watch the real code run.")
LEVEL_NOTE = ("Trusted: the specification model (harness/vmon/src/model.rs, written from the property statements), the observation channels "
              "(harness-owned storage, key listing through a never-matching invalidate_with predicate, execution events from generated bodies), the virtual clock, rustc/cargo.")
NOT_CLAIMED = {}


# an entry evicted although nothing required it is, for the call that stored it, a result that is
# not "served on the next call": in the runs that focus on Result functions / cache_if /
# invalidate_on the needless-eviction kinds also refute C09 / C10 / C11
NEEDLESS = {"needless-or-multiple-eviction", "eviction-while-everything-fits", "needless-eviction-under-memory-limit",
            "lookup-removed-live-entry", "eviction-count"}
NEEDLESS_ALL = NEEDLESS | {k + "-after-" + c for k in NEEDLESS for c in ("expiry-purge", "conditional-invalidation", "group-invalidation")}
ALSO_REFUTES = {
    "C01": [("C02", {"distinct-tuples-share-entry", "served-from-another-tuples-entry", "repeat-call-served-other-entry"})],
    "C09": [(p, NEEDLESS_ALL) for p in ("C04", "C05", "C06", "C13")],
    "C10": [(p, NEEDLESS_ALL) for p in ("C04", "C05", "C06", "C13")],
    "C11": [(p, NEEDLESS_ALL) for p in ("C04", "C05", "C06", "C13")],
}


def main():
    if len(sys.argv) >= 2 and sys.argv[1] == "manifest":
        return write_manifest()
    if len(sys.argv) >= 3 and sys.argv[1] == "replay":
        return replay(sys.argv[2])
    if len(sys.argv) < 3 or sys.argv[1] not in ("quick", "thorough"):
        log(__doc__)
        sys.exit(2)
    tier, pid = sys.argv[1], sys.argv[2]
    tier = os.environ.get("VERIF_TIER", tier) if os.environ.get("VERIF_TIER") in ("quick", "thorough") else tier
    seed = int(os.environ.get("VERIF_SEED", "1") or "1")
    if pid not in PROPS:
        log(f"unknown property {pid}")
        sys.exit(2)
    spec = PROPS[pid]
    t0 = time.time()
    files, errors = [], []
    for e in spec["engines"]:
        for (outfile, rc, tail) in ENGINES[e](pid, tier, seed):
            files.append(outfile)
            if rc == "timeout":
                errors.append(f"{os.path.basename(outfile)}: watchdog timeout (inconclusive)")
            elif rc not in (0, 3):
                errors.append(f"{os.path.basename(outfile)}: exit {rc}: {tail[-400:]}")
    merged = merge_reports(files)
    reattribute(merged["violations"])
    # one observation can refute two statements: a call served from another argument tuple's
    # entry (C02) also "yields a value that was stored for other arguments" (C01)
    for v in merged["violations"]:
        parts = v["sig"].split("|")
        # a bound exceeded after an expiry purge / an invalidation also refutes "an expired entry no
        # longer occupies capacity" (C06) / "limits behave as if the removed entries had never been stored" (C13)
        if v.get("taint") and v.get("alt_property") == pid and parts[4] in HARD_BOUND_KINDS and v.get("property") != pid:
            parts[0] = pid
            parts[4] = parts[4] + "-after-" + v["taint"]
            v["also_refutes"] = v["property"]
            v["property"] = pid
            v["sig"] = "|".join(parts)
            continue
        for (src, kinds) in ALSO_REFUTES.get(pid, []):
            parts = v["sig"].split("|")
            if v.get("property") == src and parts[4] in kinds and (src == "C02" or parts[1] == "L2"):
                parts[0] = pid
                v["also_refutes"] = src
                v["property"] = pid
                v["sig"] = "|".join(parts)
    if pid == "C14":
        thread_dependence(merged["violations"])
    if pid == "C19":
        macro_level_only(merged["violations"])
    known = load_known()
    os.makedirs(REPLAYS, exist_ok=True)
    for old in glob.glob(os.path.join(REPLAYS, f"{pid}-{seed}-*.json")):
        os.remove(old)
    new_viol, known_hits = [], {}
    for v in merged["violations"]:
        if v.get("property") != pid:
            continue
        k = match_known(known, v["sig"])
        if k is not None:
            known_hits.setdefault(k["sig"], k)
        else:
            new_viol.append(v)
    # one replay file per distinct signature
    seen = {}
    for v in new_viol:
        if v["sig"] in seen:
            continue
        n = len(seen)
        path = os.path.join(REPLAYS, f"{pid}-{seed}-{n}.json")
        json.dump(v, open(path, "w"), indent=1)
        seen[v["sig"]] = path
    wall = time.time() - t0
    write_evidence(pid, tier, seed, spec, merged, wall, len(seen))
    for k in known_hits.values():
        print(f"KNOWN-FINDING: property={pid} {k['what']}")
    for sig, path in seen.items():
        first = next(v for v in new_viol if v["sig"] == sig)
        print(f"VIOLATION property={pid} replay={path}")
        log(f"   {sig}: {first['what']}")
    if seen:
        sys.exit(1)
    # coverage floor: a run that observed nothing proves nothing
    grp, key = spec["primary"]
    seen_n = merged["counters"].get(grp, {}).get(key, 0)
    if errors:
        for e in errors:
            log("HARNESS-ERROR/INCONCLUSIVE:", e)
        # a few monitor processes lost to a watchdog (e.g. on an overloaded machine) leave the verdict
        # of the others intact; the loss is recorded in the evidence.  Many lost, or too little
        # observed, means there is no verdict.
        if len(errors) * 5 > max(1, len(files)) or seen_n < 20:
            print(f"INCONCLUSIVE property={pid} ({len(errors)} of {len(files)} monitor processes did not finish normally)")
            sys.exit(2)
    if seen_n < 20:
        print(f"INCONCLUSIVE property={pid} (only {seen_n} {key} observed)")
        sys.exit(2)
    print(f"OK property={pid} tier={tier} seed={seed}: held on everything observed ({key}={seen_n}, wall {wall:.1f}s)")
    sys.exit(0)


def replay(path):
    d = json.load(open(path))
    w = d.get("witness", d)
    mon = w.get("monitor", "l1mon")
    if mon == "l1mon":
        cargo_build(["l1"])
        r = subprocess.run([bin_path("l1mon"), "--replay", path, "--out", "/dev/null"], cwd=ROOT, env=ENV)
        sys.exit(r.returncode)
    if mon == "miri":
        r = subprocess.run(w["argv"], cwd=HARNESS, env=dict(ENV, CARGO_TARGET_DIR=os.path.join(TARGET, "miri"), MIRIFLAGS=w["flags"]))
        sys.exit(1 if r.returncode != 0 else 0)
    if mon == "concmon":
        cargo_build(["l2"])
        r = subprocess.run([bin_path("concmon"), "--replay", path, "--out", "/dev/null"], cwd=ROOT, env=ENV)
        sys.exit(r.returncode)
    if mon in ("l2mon", "l2mon-extras"):
        cargo_build(["l2"])
        r = subprocess.run([bin_path("l2mon"), "--replay", path, "--out", "/dev/null"], cwd=ROOT, env=ENV)
        sys.exit(r.returncode)
    log(f"no replayer for monitor {mon}")
    sys.exit(2)


if __name__ == "__main__":
    main()
